#!/bin/bash
# Build everything the checks need, offline, from files on disk only.
set -e
cd "$(dirname "$0")"
export CARGO_NET_OFFLINE=true
mkdir -p work evidence replays
(cd harness && cargo build --offline --quiet && cargo build --offline --quiet --release)
VOCAB_OUT=$PWD/work/vocab.json tlc -metadir work/tlc/setup_md -cleanup spec/ExportVocab.tla > work/setup_vocab.log 2>&1 || { cat work/setup_vocab.log; exit 1; }
test -s work/vocab.json
echo "setup ok"
