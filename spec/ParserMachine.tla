--------------------------- MODULE ParserMachine ---------------------------
(***************************************************************************)
(* The parser as an explicit state machine: one frame per active Rust      *)
(* procedure (generate_ast, parse_number's continuations,                  *)
(* function_static_arguments, find_item_list,                              *)
(* get_enclosed_elements_with_impl_mult, implicit_multiply,                *)
(* convert_token_to_node), one transition per step between two             *)
(* observable events.  The observable events are the ones the cfg-guarded  *)
(* hook records in the real parser:                                        *)
(*      <<"G", L>>   entry of generate_ast with precedence L               *)
(*      <<"L", L>>   one iteration of the operator loop of that frame      *)
(*      <<"T", k>>   get_next_token made k the current token               *)
(* (`evs` is the history of them).  The environment supplies the next      *)
(* token on demand, so TLC explores the tree of viable prefixes.           *)
(*                                                                         *)
(* Checked by MCParserMachine: the machine refines ParseFn (same verdict,  *)
(* same tree, same error position), its tick counter equals ParseSteps'    *)
(* prediction, the recursion depth is bounded by the number of tokens read *)
(* (no stack overflow within the 256-character bound of C01), and every    *)
(* behaviour terminates (the state graph is acyclic: `steps` grows).       *)
(***************************************************************************)
EXTENDS ParseSteps, TLC

CONSTANTS MK,            \* token kinds the environment may supply
          MN             \* at most MN tokens before end of input

VARIABLES hist,          \* tokens supplied so far; the last one is the current token (lookahead)
          stack,         \* frames of the active procedures, innermost last
          ret,           \* result handed from a finished procedure to its caller: [ok, node] or NoRet
          status,        \* "run" | "ok" | "err"
          result,        \* final [ok, node, pos]
          ticks,         \* what the hook counts as PARSE
          evs            \* observable events
mvars == <<hist, stack, ret, status, result, ticks, evs>>

NoRet == [none |-> TRUE]
ROk(n) == [ok |-> TRUE, node |-> n]
RErr == [ok |-> FALSE, node |-> <<>>]
cur == hist[Len(hist)]
pos == Len(hist)
Top == stack[Len(stack)]
Pop == SubSeq(stack, 1, Len(stack) - 1)
Push(f) == Append(stack, f)
Repl(f) == Append(Pop, f)

\* ---- frames --------------------------------------------------------------
FGen(L)          == [p |-> "gen", L |-> L, st |-> "enter", left |-> <<>>]
FPNum            == [p |-> "pnum"]
FAfterSign(neg)  == [p |-> "sign", neg |-> neg]
FEncl(k)         == [p |-> "encl", k |-> k]                        \* after the inner expression of an opener of kind k
FStatic(k, fp, n, acc) == [p |-> "static", k |-> k, fp |-> fp, n |-> n, acc |-> acc, st |-> "arg"]
FItems(k, fp, acc)     == [p |-> "items", k |-> k, fp |-> fp, acc |-> acc, st |-> "top"]
FImpl(node)      == [p |-> "impl", node |-> node, st |-> "test"]
FConv(k, left)   == [p |-> "conv", k |-> k, left |-> left]

\* ---- the environment: next token on demand -------------------------------
Supply(k) == /\ (Len(hist) < MN \/ k = "eof")
             /\ (cur = "eof" => k = "eof")
             /\ hist' = Append(hist, k)
             /\ evs' = Append(evs, <<"T", k>>)
Advance == \E k \in MK \cup {"eof"} : Supply(k)

Fail == /\ status' = "err" /\ result' = [ok |-> FALSE, node |-> <<>>, pos |-> pos]
        /\ stack' = <<>> /\ ret' = NoRet
Return(r) == stack' = Pop /\ ret' = r

Init == /\ \E k \in MK \cup {"eof"} : hist = <<k>> /\ evs = <<<<"T", k>>>>
        /\ stack = <<FGen(LvlZero)>> /\ ret = NoRet /\ status = "run"
        /\ result = [ok |-> FALSE, node |-> <<>>, pos |-> 0] /\ ticks = 0

Running == status = "run" /\ stack # <<>>

\* ---- generate_ast --------------------------------------------------------
GenEnter == /\ Running /\ Top.p = "gen" /\ Top.st = "enter" /\ ret = NoRet
            /\ ticks' = ticks + 1
            /\ evs' = Append(evs, <<"G", Top.L>>)
            /\ stack' = Append(Repl([Top EXCEPT !.st = "num"]), FPNum)
            /\ UNCHANGED <<hist, ret, status, result>>
GenAfterNum == /\ Running /\ Top.p = "gen" /\ Top.st = "num" /\ ret # NoRet
               /\ IF ret.ok THEN stack' = Repl([Top EXCEPT !.st = "loop", !.left = ret.node]) /\ ret' = NoRet
                            ELSE Return(ret)
               /\ UNCHANGED <<hist, status, result, ticks, evs>>
GenLoop == /\ Running /\ Top.p = "gen" /\ Top.st = "loop" /\ ret = NoRet
           /\ IF Top.L < Prec(cur)
              THEN /\ ticks' = ticks + 1
                   /\ evs' = Append(evs, <<"L", Top.L>>)
                   /\ stack' = Append(Repl([Top EXCEPT !.st = "conv"]), FConv(cur, Top.left))
                   /\ UNCHANGED ret
              ELSE /\ Return(ROk(Top.left)) /\ UNCHANGED <<ticks, evs>>
           /\ UNCHANGED <<hist, status, result>>
GenAfterConv == /\ Running /\ Top.p = "gen" /\ Top.st = "conv" /\ ret # NoRet
                /\ IF ret.ok THEN stack' = Repl([Top EXCEPT !.st = "loop", !.left = ret.node]) /\ ret' = NoRet
                             ELSE Return(ret)
                /\ UNCHANGED <<hist, status, result, ticks, evs>>

\* ---- parse_number --------------------------------------------------------
PNumStep ==
  /\ Running /\ Top.p = "pnum" /\ ret = NoRet
  /\ LET k == cur p0 == pos IN
     CASE k \in {"ans", "const"} ->
            /\ Advance /\ Return(ROk(<<k, p0>>)) /\ UNCHANGED <<status, result, ticks>>
       [] k = "num" ->
            /\ Advance /\ stack' = Repl(FImpl(<<"num", p0>>)) /\ UNCHANGED <<ret, status, result, ticks>>
       [] k \in {"sub", "add"} ->
            /\ Advance /\ stack' = Append(Repl(FAfterSign(k = "sub")), FGen(LvlNeg)) /\ UNCHANGED <<ret, status, result, ticks>>
       [] k \in Openers ->
            /\ Advance /\ stack' = Append(Repl(FEncl(k)), FGen(LvlZero)) /\ UNCHANGED <<ret, status, result, ticks>>
       [] k \in {"f1", "f2"} ->
            /\ Advance /\ stack' = Repl([FStatic(k, p0, IF k = "f1" THEN 1 ELSE 2, <<>>) EXCEPT !.st = "lp"])
            /\ UNCHANGED <<ret, status, result, ticks>>
       [] k \in {"fv", "fa"} ->
            /\ Advance /\ stack' = Repl([FItems(k, p0, <<>>) EXCEPT !.st = "lp"]) /\ UNCHANGED <<ret, status, result, ticks>>
       [] OTHER -> Fail /\ UNCHANGED <<hist, ticks, evs>>
SignAfter == /\ Running /\ Top.p = "sign" /\ ret # NoRet
             /\ Return(IF ret.ok /\ Top.neg THEN ROk(<<"neg", ret.node>>) ELSE ret)
             /\ UNCHANGED <<hist, status, result, ticks, evs>>
\* get_enclosed_elements_with_impl_mult: check_paren(closer), then implicit_multiply
EnclAfter == /\ Running /\ Top.p = "encl" /\ ret # NoRet
             /\ IF ~ret.ok THEN Return(ret) /\ UNCHANGED <<hist, status, result, evs>>
                ELSE IF cur = Close(Top.k)
                     THEN Advance /\ stack' = Repl(FImpl(<<Top.k, ret.node>>)) /\ ret' = NoRet /\ UNCHANGED <<status, result>>
                     ELSE Fail /\ UNCHANGED <<hist, evs>>
             /\ UNCHANGED ticks

\* ---- function_static_arguments(n) ----------------------------------------
StaticLp == /\ Running /\ Top.p = "static" /\ Top.st = "lp" /\ ret = NoRet
            /\ IF cur = "lp" THEN Advance /\ stack' = Repl([Top EXCEPT !.st = "arg"]) /\ UNCHANGED <<ret, status, result>>
                             ELSE Fail /\ UNCHANGED <<hist, evs>>
            /\ UNCHANGED ticks
StaticArg == /\ Running /\ Top.p = "static" /\ Top.st = "arg" /\ ret = NoRet
             /\ ticks' = ticks + 1
             /\ stack' = Append(Repl([Top EXCEPT !.st = "after"]), FGen(LvlZero))
             /\ UNCHANGED <<hist, ret, status, result, evs>>
StaticAfter == /\ Running /\ Top.p = "static" /\ Top.st = "after" /\ ret # NoRet
               /\ IF ~ret.ok THEN Return(ret) /\ UNCHANGED <<hist, status, result, evs>>
                  ELSE LET acc == Append(Top.acc, ret.node) IN
                       IF Top.n = 1
                       THEN (IF cur = "rp" THEN Advance /\ stack' = Repl(FImpl(<<Top.k, Top.fp, acc>>)) /\ ret' = NoRet /\ UNCHANGED <<status, result>>
                                           ELSE Fail /\ UNCHANGED <<hist, evs>>)
                       ELSE (IF cur = "comma" THEN Advance /\ stack' = Repl([Top EXCEPT !.st = "arg", !.n = Top.n - 1, !.acc = acc]) /\ ret' = NoRet /\ UNCHANGED <<status, result>>
                                              ELSE Fail /\ UNCHANGED <<hist, evs>>)
               /\ UNCHANGED ticks

\* ---- find_item_list ------------------------------------------------------
ItemsLp == /\ Running /\ Top.p = "items" /\ Top.st = "lp" /\ ret = NoRet
           /\ IF cur = "lp" THEN Advance /\ stack' = Repl([Top EXCEPT !.st = "top"]) /\ UNCHANGED <<ret, status, result>>
                            ELSE Fail /\ UNCHANGED <<hist, evs>>
           /\ UNCHANGED ticks
ItemsTop == /\ Running /\ Top.p = "items" /\ Top.st = "top" /\ ret = NoRet
            /\ ticks' = ticks + 1
            /\ IF Top.acc = <<>> /\ cur = "rp"
               THEN \* an empty list: avg() is 0, every other aggregate rejects it (at the closing bracket just consumed)
                    IF Top.k = "fa" THEN Advance /\ stack' = Repl(FImpl(<<"zero", Top.fp>>)) /\ UNCHANGED <<ret, status, result>>
                    ELSE /\ Advance
                         /\ status' = "err" /\ result' = [ok |-> FALSE, node |-> <<>>, pos |-> pos] /\ stack' = <<>> /\ ret' = NoRet
               ELSE /\ stack' = Append(Repl([Top EXCEPT !.st = "after"]), FGen(LvlZero))
                    /\ UNCHANGED <<hist, ret, status, result, evs>>
ItemsAfter == /\ Running /\ Top.p = "items" /\ Top.st = "after" /\ ret # NoRet
              /\ IF ~ret.ok THEN Return(ret) /\ UNCHANGED <<hist, status, result, evs>>
                 ELSE LET acc == Append(Top.acc, ret.node) IN
                      IF cur = "comma" THEN Advance /\ stack' = Repl([Top EXCEPT !.st = "top", !.acc = acc]) /\ ret' = NoRet /\ UNCHANGED <<status, result>>
                      ELSE IF cur = "rp" THEN Advance /\ stack' = Repl(FImpl(<<Top.k, Top.fp, acc>>)) /\ ret' = NoRet /\ UNCHANGED <<status, result>>
                      ELSE Fail /\ UNCHANGED <<hist, evs>>
              /\ UNCHANGED ticks

\* ---- implicit_multiply ---------------------------------------------------
ImplTest == /\ Running /\ Top.p = "impl" /\ Top.st = "test" /\ ret = NoRet
            /\ IF Trig(cur) THEN stack' = Append(Repl([Top EXCEPT !.st = "after"]), FGen(LvlMul)) /\ UNCHANGED ret
                            ELSE Return(ROk(Top.node))
            /\ UNCHANGED <<hist, status, result, ticks, evs>>
ImplAfter == /\ Running /\ Top.p = "impl" /\ Top.st = "after" /\ ret # NoRet
             /\ Return(IF ret.ok THEN ROk(<<"imul", Top.node, ret.node>>) ELSE ret)
             /\ UNCHANGED <<hist, status, result, ticks, evs>>

\* ---- convert_token_to_node -----------------------------------------------
BinName(s) == SubSeq(s, 10, Len(s))                    \* "binafter:" has nine characters
IsBinAfter(k) == Len(k) > 9 /\ SubSeq(k, 1, 9) = "binafter:"
ConvStep == /\ Running /\ Top.p = "conv" /\ ret = NoRet /\ ~IsBinAfter(Top.k)
            /\ LET k == Top.k p0 == pos IN
               CASE k \in BinOps -> /\ Advance /\ stack' = Append(Repl([Top EXCEPT !.k = "binafter:" \o k]), FGen(Prec(k)))
                                    /\ UNCHANGED <<ret, status, result>>
                 [] k = "bang" -> Advance /\ stack' = Repl(FImpl(<<"fact", Top.left>>)) /\ UNCHANGED <<ret, status, result>>
                 [] k \in {"deg", "rad"} -> Advance /\ Return(ROk(<<k, Top.left>>)) /\ UNCHANGED <<status, result>>
                 [] k = "sup" -> Advance /\ Return(ROk(<<"psup", Top.left, p0>>)) /\ UNCHANGED <<status, result>>
                 [] OTHER -> Fail /\ UNCHANGED <<hist, evs>>
            /\ UNCHANGED ticks
ConvAfter == /\ Running /\ Top.p = "conv" /\ ret # NoRet /\ IsBinAfter(Top.k)
             /\ Return(IF ret.ok THEN ROk(<<BinName(Top.k), Top.left, ret.node>>) ELSE ret)
             /\ UNCHANGED <<hist, status, result, ticks, evs>>

\* ---- parse(): the whole input must have been consumed ---------------------
Finish == /\ status = "run" /\ stack = <<>> /\ ret # NoRet
          /\ IF ret.ok /\ cur = "eof" THEN status' = "ok" /\ result' = [ok |-> TRUE, node |-> ret.node, pos |-> pos]
                                      ELSE status' = "err" /\ result' = [ok |-> FALSE, node |-> <<>>, pos |-> pos]
          /\ ret' = NoRet
          /\ UNCHANGED <<hist, stack, ticks, evs>>

MNext == \/ GenEnter \/ GenAfterNum \/ GenLoop \/ GenAfterConv \/ PNumStep \/ SignAfter \/ EnclAfter
         \/ StaticLp \/ StaticArg \/ StaticAfter \/ ItemsLp \/ ItemsTop \/ ItemsAfter
         \/ ImplTest \/ ImplAfter \/ ConvStep \/ ConvAfter
         \/ Finish
MSpec == Init /\ [][MNext]_mvars
MFair == MSpec /\ WF_mvars(MNext)
\* every parse comes to an end (liveness, under weak fairness of the machine's steps)
Terminates == <>(status # "run")

(***************************************************************************)
(* What the machine must satisfy.                                          *)
(***************************************************************************)
Tokens == IF cur = "eof" THEN SubSeq(hist, 1, Len(hist) - 1) ELSE hist
Done == status # "run"
\* refinement of ParseFn: verdict, tree and (on acceptance) everything consumed; tick counter = ParseSteps' prediction
Refines == Done => LET p == Parse(Tokens) IN
                   /\ (status = "ok") = p.ok
                   /\ status = "ok" => (result.node = p.node /\ cur = "eof")
                   /\ (status = "err" /\ cur = "eof") => (~p.ok /\ result.pos = p.pos)
TicksAgree == (Done /\ (status = "ok" \/ cur = "eof")) => ticks = ParseSt(Tokens).st
\* recursion depth: at most three frames per token read, plus the top-level ones
DepthBound == Len(stack) <= 3 * Len(hist) + 2
\* every step either reads a token or works on a frame; the work per token is bounded: no cycle, linear ticks
Linear == ticks <= 2 + 3 * Len(hist)
\* a finished procedure's result is picked up at once; nothing is pending when the machine stops
RetDiscipline == (Done => (ret = NoRet /\ stack = <<>>))
\* negative controls (expected to be violated): the machine does accept, does fail, and does nest
NeverAccepts == status # "ok"
NeverFailsEarly == ~(status = "err" /\ cur # "eof")
ShallowOnly == Len(stack) <= 6
=============================================================================
