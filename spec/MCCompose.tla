----------------------------- MODULE MCCompose -----------------------------
(***************************************************************************)
(* Beyond the token bound of MCGrammar: composition.                       *)
(*                                                                         *)
(* A composite is a context C (an accepted token sequence with a hole `@`) *)
(* whose first hole is filled with a bracketed accepted piece, and this    *)
(* repeatedly: C1[(C2[(...(E)...)])].  State = the composite built so far; *)
(* one action = one more enclosing context.  TLC parses every composite    *)
(* with ParseFn itself (the tree that is replayed into the code is the     *)
(* parser definition's, not a construction of the harness) and checks the  *)
(* substitution lemma of C20 on every step:                                *)
(*    Tree(C[(X)]) = Tree(C[@]) with the hole replaced by Tree(X).         *)
(*                                                                         *)
(* Exhaustive for depth 1 (every context of at most Nc tokens x every      *)
(* piece of at most Np tokens: all inputs of the shape C[(E)] up to        *)
(* Nc + Np + 1 tokens); with `tlc -simulate` the same Next produces long   *)
(* chains of up to MaxToks tokens (inputs of up to 256 characters: the     *)
(* quantifier of C01 and C02).                                             *)
(***************************************************************************)
EXTENDS Grammar, ParseSteps, Json
CONSTANTS E,          \* evaluator
          Mode,       \* "plug": C[(X)] as above;  "join": X op Y - two pieces joined by a binary operator, no brackets added
                      \*  (all interplay of the operators of X, op and Y: the grouping is ParseFn's, checked against the capture-chain rule)
          Nc, Np,     \* longest context / piece (tokens); in join mode Nc bounds the right-hand piece
          MaxDepth,   \* number of composition steps
          MaxToks,    \* longest composite (tokens)
          EmitOn

K == Kinds(E)
SeqsUpTo(n) == UNION {[1..m -> K] : m \in 1..n}
Good(t) == Parse(t).ok /\ Renderable(t) /\ ~NumNum(t)
HasAns(t) == \E i \in 1..Len(t) : t[i] = "ans"
Pieces == {t \in SeqsUpTo(Np) : Good(t)}
Ctxs   == {t \in SeqsUpTo(Nc) : Good(t) /\ HasAns(t)}
FirstAns(t) == CHOOSE i \in 1..Len(t) : t[i] = "ans" /\ \A j \in 1..(i - 1) : t[j] # "ans"

VARIABLES cur,        \* the composite so far
          depth,      \* composition steps taken
          lastc,      \* the context of the last step
          inner       \* what was plugged into it
vars == <<cur, depth, lastc, inner>>

Init == cur \in Pieces /\ depth = 0 /\ lastc = <<>> /\ inner = <<>>
Enclose(c) == /\ Len(c) + Len(cur) + 1 <= MaxToks
              /\ cur' = Plug(c, FirstAns(c), cur)
              /\ lastc' = c /\ inner' = cur
              /\ depth' = depth + 1
RightPieces == {t \in SeqsUpTo(Nc) : Good(t)}
JoinWith(op, y) == /\ Len(cur) + Len(y) + 1 <= MaxToks
                   /\ cur' = cur \o <<op>> \o y
                   /\ lastc' = <<op>> /\ inner' = y
                   /\ depth' = depth + 1
Next == /\ depth < MaxDepth
        /\ IF Mode = "join" THEN \E op \in BinOps \cap K : \E y \in RightPieces : JoinWith(op, y)
                            ELSE \E c \in Ctxs : Enclose(c)

P == Parse(cur)
\* the substitution lemma on this step; in particular every composite is accepted
ComposeOK == (depth > 0 /\ Mode = "plug") =>
               /\ P.ok
               /\ Er(P.node) = ErSub(Parse(lastc).node, FirstAns(lastc), Er(Parse(inner).node))
\* two expressions joined by a binary operator form an expression (whatever the operators inside them)
JoinOK == (depth > 0 /\ Mode = "join") => P.ok
\* the independent formulations agree on composites too (C03, C04 beyond the bound of MCGrammar)
ComposeAgree == P.ok = Rec(cur)
ComposeTree == (P.ok /\ JuxFree(cur)) => P.node = RTree(cur, 1, Len(cur))
\* parsing work stays linear in the number of tokens, tree walk too (C02)
ComposeSteps == ParseStepBound(cur) /\ (P.ok => EvalNodes(P.node) <= 2 * Len(cur))

Behaviour == [toks |-> cur, v |-> IF P.ok THEN "accept" ELSE "reject", tree |-> P.node,
              fl |-> [numnum |-> NumNum(cur), renderable |-> Renderable(cur), jux |-> Sites(cur) # {}],
              comp |-> [depth |-> depth, ctx |-> Len(lastc)]]
Emit == (EmitOn /\ depth > 0) => PrintT(<<"BEH", ToJson(Behaviour)>>)
=============================================================================
