------------------------------ MODULE FloatSem ------------------------------
(***************************************************************************)
(* C05: the special-value algebra of IEEE-754 binary64 arithmetic, on the  *)
(* class domain  NaN, -Inf, NegFin, -0, +0, PosFin, +Inf  (round to        *)
(* nearest).  Each operator maps a pair of classes to the SET of classes   *)
(* its result may have.  The statement "overflow, division by zero and     *)
(* invalid operations produce +-inf or NaN values that propagate; they are *)
(* never turned into Err" is the totality of these tables: every pair has  *)
(* a non-empty result set and no entry is an error.                        *)
(***************************************************************************)
EXTENDS Naturals, FiniteSets, TLC
Classes == {"NaN", "NInf", "NegFin", "NZero", "PZero", "PosFin", "PInf"}
IsNeg(c) == c \in {"NInf", "NegFin", "NZero"}
IsInf(c) == c \in {"NInf", "PInf"}
IsZero(c) == c \in {"NZero", "PZero"}
IsFin(c) == c \in {"NegFin", "PosFin"}
Signed(neg, kind) == CASE kind = "inf" -> IF neg THEN "NInf" ELSE "PInf"
                       [] kind = "zero" -> IF neg THEN "NZero" ELSE "PZero"
                       [] kind = "fin" -> IF neg THEN "NegFin" ELSE "PosFin"
NegC(c) == CASE c = "NaN" -> "NaN" [] c = "NInf" -> "PInf" [] c = "PInf" -> "NInf" [] c = "NegFin" -> "PosFin" [] c = "PosFin" -> "NegFin"
             [] c = "NZero" -> "PZero" [] c = "PZero" -> "NZero"

Add(a, b) ==
  IF a = "NaN" \/ b = "NaN" THEN {"NaN"}
  ELSE IF IsInf(a) /\ IsInf(b) THEN (IF a = b THEN {a} ELSE {"NaN"})
  ELSE IF IsInf(a) THEN {a} ELSE IF IsInf(b) THEN {b}
  ELSE IF IsZero(a) /\ IsZero(b) THEN (IF a = "NZero" /\ b = "NZero" THEN {"NZero"} ELSE {"PZero"})
  ELSE IF IsZero(a) THEN {b} ELSE IF IsZero(b) THEN {a}
  ELSE IF a = b THEN {a, Signed(IsNeg(a), "inf")}                 \* same sign: may overflow
  ELSE {"PosFin", "NegFin", "PZero"}                              \* opposite signs: exact cancellation gives +0
Sub(a, b) == Add(a, NegC(b))
Mul(a, b) ==
  LET neg == IsNeg(a) # IsNeg(b) IN
  IF a = "NaN" \/ b = "NaN" THEN {"NaN"}
  ELSE IF (IsInf(a) /\ IsZero(b)) \/ (IsZero(a) /\ IsInf(b)) THEN {"NaN"}
  ELSE IF IsInf(a) \/ IsInf(b) THEN {Signed(neg, "inf")}
  ELSE IF IsZero(a) \/ IsZero(b) THEN {Signed(neg, "zero")}
  ELSE {Signed(neg, "fin"), Signed(neg, "zero"), Signed(neg, "inf")}   \* underflow / overflow
Div(a, b) ==
  LET neg == IsNeg(a) # IsNeg(b) IN
  IF a = "NaN" \/ b = "NaN" THEN {"NaN"}
  ELSE IF (IsInf(a) /\ IsInf(b)) \/ (IsZero(a) /\ IsZero(b)) THEN {"NaN"}
  ELSE IF IsZero(b) \/ IsInf(a) THEN {Signed(neg, "inf")}               \* division by zero is a value
  ELSE IF IsZero(a) \/ IsInf(b) THEN {Signed(neg, "zero")}
  ELSE {Signed(neg, "fin"), Signed(neg, "zero"), Signed(neg, "inf")}
\* fmod: the sign of the dividend
Rem(a, b) ==
  IF a = "NaN" \/ b = "NaN" \/ IsInf(a) \/ IsZero(b) THEN {"NaN"}
  ELSE IF IsZero(a) \/ IsInf(b) THEN {a}
  ELSE {Signed(IsNeg(a), "fin"), Signed(IsNeg(a), "zero")}

Ops == {"add", "sub", "mul", "div", "mod"}
Apply(op, a, b) == CASE op = "add" -> Add(a, b) [] op = "sub" -> Sub(a, b) [] op = "mul" -> Mul(a, b) [] op = "div" -> Div(a, b) [] op = "mod" -> Rem(a, b)

\* ---- the statement of C05 on the tables --------------------------------------
NeverErr == \A op \in Ops : \A a, b \in Classes : Apply(op, a, b) # {} /\ Apply(op, a, b) \subseteq Classes
NaNPropagates == \A op \in Ops : \A a \in Classes : Apply(op, "NaN", a) = {"NaN"} /\ Apply(op, a, "NaN") = {"NaN"}
NegOfZeroIsNegZero == NegC("PZero") = "NZero" /\ NegC("NZero") = "PZero"
DivByZeroIsInf == \A a \in {"NegFin", "PosFin"} : Div(a, "PZero") = {Signed(IsNeg(a), "inf")} /\ Div(a, "NZero") = {Signed(~IsNeg(a), "inf")}
FmodSignOfDividend == \A a \in {"NegFin", "PosFin"} : \A b \in {"NegFin", "PosFin"} : \A r \in Rem(a, b) : IsNeg(r) = IsNeg(a)
Commutes == \A a, b \in Classes : Add(a, b) = Add(b, a) /\ Mul(a, b) = Mul(b, a)
ASSUME NeverErr /\ NaNPropagates /\ NegOfZeroIsNegZero /\ DivByZeroIsInf /\ FmodSignOfDividend /\ Commutes
=============================================================================
