------------------------------- MODULE Lexer -------------------------------
(***************************************************************************)
(* Character level: whitespace stripping and Tokenizer::next, for all five *)
(* evaluators, as one function Lex1(e, s) and its iteration LexAll(e, s).  *)
(*                                                                         *)
(* One disjunct per arm group of the Rust tokenizers.  The specification   *)
(* describes the intended behaviour: text that is not a literal of the     *)
(* evaluator is rejected (token "bad"), never converted by force.          *)
(***************************************************************************)
EXTENDS Vocab

RECURSIVE RunLen(_, _)
RunLen(s, S) == IF s # <<>> /\ s[1] \in S THEN 1 + RunLen(Tail(s), S) ELSE 0
Drop(s, n) == SubSeq(s, n + 1, Len(s))
Take(s, n) == SubSeq(s, 1, n)
CountOf(s, c) == Cardinality({i \in 1..Len(s) : s[i] = c})

\* ---- whitespace removal (mod.rs: split_whitespace().collect()) ----------
Strip(s) == SelectSeq(s, LAMBDA c : c # "WS")

\* ---- tokens -------------------------------------------------------------
\* k: kind; fn: canonical function / constant name; txt: literal or superscript digits;
\* im: imaginary literal (cpx); tag: "" or the name of the rule that makes this token's treatment unspecified
Tok(k, fn, txt, im) == [k |-> k, fn |-> fn, txt |-> txt, im |-> im]
Plain(k) == Tok(k, "", <<>>, FALSE)
Bad(why)  == Tok("bad", why, <<>>, FALSE)

R(t, rest) == [tok |-> t, rest |-> rest]

\* ---- number literal scanning, per evaluator -----------------------------
\* length of the character run the tokenizer takes for a literal that starts with a digit
DigitRun(e, s) ==
  CASE e = "i64" -> RunLen(s, Digits)
    [] e = "num" -> LET a == RunLen(s, Digits) IN
                    IF a < Len(s) /\ s[a + 1] = "." THEN a + 1 + RunLen(Drop(s, a + 1), Digits) ELSE a
    [] OTHER     -> RunLen(s, Digits \cup {"."})

\* an optional `i` suffix makes the literal imaginary (eval_complex only)
WithImag(e, txt, rest) ==
  IF HasImagUnit(e) /\ rest # <<>> /\ rest[1] = "i"
  THEN R(Tok("num", "", txt, TRUE), Tail(rest))
  ELSE R(Tok("num", "", txt, FALSE), rest)

LexDigits(e, s) ==
  LET n == DigitRun(e, s) txt == Take(s, n) IN
  IF CountOf(txt, ".") > 1
  THEN R(Bad("MultiPointLiteral"), <<>>)          \* `1.2.3`, `1..2`: not a literal (pinned code: panic)
  ELSE WithImag(e, txt, Drop(s, n))

LexDot(e, s) ==
  IF HasPoint(e) /\ Len(s) >= 2 /\ s[2] \in Digits
  THEN LET n == 1 + RunLen(Tail(s), Digits) IN WithImag(e, Take(s, n), Drop(s, n))
  ELSE R(Bad("char"), <<>>)

LexSup(e, s) ==
  LET n == RunLen(s, Sups) IN
  R(Tok("sup", "", [i \in 1..n |-> SupDigit(s[i])], FALSE), Drop(s, n))

\* ---- keywords -----------------------------------------------------------
KwMatches(e, s) == {k \in KeywordsOf(e) : StartsWith(s, Chars(k.name) \o <<"(">>)}

Lex1(e, s) ==
  LET c == s[1] IN
  IF c \in SingleChars(e) THEN R(Plain(SingleAll[c]), Tail(s))
  ELSE IF HasShift(e) /\ c \in {"<", ">"} THEN
       (IF Len(s) >= 2 /\ s[2] = c THEN R(Plain(IF c = "<" THEN "shl" ELSE "shr"), Drop(s, 2))
        ELSE R(Bad("char"), <<>>))
  ELSE IF c = "." THEN LexDot(e, s)
  ELSE IF c \in Sups THEN LexSup(e, s)
  ELSE IF c \in Digits THEN LexDigits(e, s)
  ELSE IF KwMatches(e, s) # {} THEN
       LET k == CHOOSE k \in KwMatches(e, s) : TRUE IN
       R(Tok(k.cls, k.fn, <<>>, FALSE), Drop(s, Len(k.name)))       \* never consumes the "("
  ELSE IF c = "e" /\ HasConst(e) THEN R(Tok("const", "E", <<>>, FALSE), Tail(s))
  ELSE IF HasConst(e) /\ StartsWith(s, <<"p","i">>) THEN R(Tok("const", "PI", <<>>, FALSE), Drop(s, 2))
  ELSE IF HasRadWord(e) /\ StartsWith(s, <<"r","a","d">>) THEN R(Plain("rad"), Drop(s, 3))
  ELSE IF HasImagUnit(e) /\ c = "i" THEN R(Tok("num", "", <<"1">>, TRUE), Tail(s))
  ELSE R(Bad("char"), <<>>)

RECURSIVE LexAll(_, _)
LexAll(e, s) == IF s = <<>> THEN <<>>
                ELSE LET r == Lex1(e, s) IN
                     IF r.tok.k = "bad" THEN <<r.tok>> ELSE <<r.tok>> \o LexAll(e, r.rest)

KindsOf(toks) == [i \in 1..Len(toks) |-> toks[i].k]
LexOk(toks) == \A i \in 1..Len(toks) : toks[i].k # "bad"

\* PI_SYM lexes as the constant PI too
ConstName(t) == IF t.k = "const" /\ t.fn = "" THEN "PI" ELSE t.fn

(***************************************************************************)
(* Progress: every token consumes at least one character, so a string of   *)
(* n characters yields at most n tokens (the lexing part of C02).          *)
(***************************************************************************)
LexProgress(e, s) == s # <<>> => LET r == Lex1(e, s) IN r.tok.k = "bad" \/ Len(r.rest) < Len(s)

(***************************************************************************)
(* Literal text -> value facts that need no arithmetic.                    *)
(***************************************************************************)
RECURSIVE StripZeros(_)
StripZeros(d) == IF Len(d) > 1 /\ d[1] = "0" THEN StripZeros(Tail(d)) ELSE d

DigitVal(c) == CASE c = "0" -> 0 [] c = "1" -> 1 [] c = "2" -> 2 [] c = "3" -> 3 [] c = "4" -> 4
                 [] c = "5" -> 5 [] c = "6" -> 6 [] c = "7" -> 7 [] c = "8" -> 8 [] c = "9" -> 9

\* lexicographic <= on equal-length digit strings
RECURSIVE LexLeq(_, _)
LexLeq(a, b) == IF a = <<>> THEN TRUE
                ELSE IF DigitVal(a[1]) < DigitVal(b[1]) THEN TRUE
                ELSE IF DigitVal(a[1]) > DigitVal(b[1]) THEN FALSE
                ELSE LexLeq(Tail(a), Tail(b))

I64MaxDigits == Chars("9223372036854775807")
\* does the digit string denote an integer <= i64::MAX ?  (decided on the text, no big numbers needed)
FitsI64(d) == LET z == StripZeros(d) IN
              Len(z) < 19 \/ (Len(z) = 19 /\ LexLeq(z, I64MaxDigits))

HasPointIn(txt) == \E i \in 1..Len(txt) : txt[i] = "."
SigDigits(txt) == Len(StripZeros(SelectSeq(txt, LAMBDA c : c # ".")))

\* Is the conversion of this token to a value defined for evaluator e?
\*   "ok"     : the value is the exact decimal value of the text (C19)
\*   "err"    : the evaluator must reject (the integer does not fit i64)
\*   "unspec" : the properties do not say (a 30-digit decimal, an over-long integer in eval_number)
LitClass(e, t) ==
  IF t.k \notin {"num", "sup"} THEN "ok"
  ELSE CASE e = "i64" -> IF FitsI64(t.txt) THEN "ok" ELSE "err"
         [] e = "num" -> IF HasPointIn(t.txt) \/ FitsI64(t.txt) THEN "ok" ELSE "unspec"
         [] e = "dec" -> IF SigDigits(t.txt) <= 28 THEN "ok" ELSE "unspec"
         [] OTHER     -> "ok"
=============================================================================
