----------------------------- MODULE MCGrammar -----------------------------
(***************************************************************************)
(* Viable-prefix enumeration of token sequences for one evaluator:         *)
(* every sequence of at most N token kinds over the evaluator's complete   *)
(* kind vocabulary (plus the foreign token "bad") that the parser has not  *)
(* yet rejected, each extended by one more token.  Checks the independent  *)
(* formulations of Grammar against ParseFn in every state, and (EmitOn)    *)
(* prints one JSON line per state: the behaviours replayed into the code.  *)
(***************************************************************************)
EXTENDS Grammar, ParseSteps, Json
CONSTANTS N, E, EmitOn

VARIABLE toks
K == Kinds(E) \cup {"bad"}

\* focused sub-alphabets (configuration: K <- KArgs): longer sequences over fewer kinds - calls with the placeholder and literals
\* in every argument position, nested once
KArgs == Kinds(E) \cap {"ans", "num", "f1", "f2", "fv", "fa", "lp", "rp", "comma", "sub"}

Init == toks = <<>>
Next == /\ Len(toks) < N /\ Viable(toks) /\ \E k \in K : toks' = Append(toks, k)

P == Parse(toks)

\* ---- C03 ---------------------------------------------------------------
Agree == /\ P.ok = Rec(toks)
         /\ Viable(toks) = RecViable(toks)
OkMeansAllConsumed == P.ok => P.pos = Len(toks) + 1
\* the defect of the pinned parse(): a prefix is accepted (negative control, expected to be violated)
PrefixNeverAccepted == ParsePrefix(toks).ok => P.ok

\* ---- C02 (parsing part) -------------------------------------------------
StepsAgree == LET s == ParseSt(toks) IN s.ok = P.ok /\ s.pos = P.pos
StepsLinear == ParseStepBound(toks)
EvalLinear == P.ok => EvalNodes(P.node) <= 2 * Len(toks)

\* ---- C04 ---------------------------------------------------------------
TreeOK == (P.ok /\ JuxFree(toks)) => P.node = RTree(toks, 1, Len(toks))

\* ---- C12 ---------------------------------------------------------------
JuxOK == (P.ok /\ Sites(toks) # {}) =>
            LET x == Explicit(toks) IN Er(P.node) = Er(RTree(x, 1, Len(x)))
\* constants, @, superscripts, deg and rad neither start nor continue an implicit product
NoJuxAfter == \A k \in 1..(Len(toks) - 1) :
                 (toks[k] \in {"const", "ans", "sup", "deg", "rad"} /\
                  toks[k+1] \in {"num", "ans", "const", "lp", "lf", "lc", "f1", "f2", "fv", "fa"}) => ~P.ok
NoJuxBefore == \A k \in 1..(Len(toks) - 1) :
                 (toks[k] \in {"num", "rp", "rf", "rc", "bang", "ans", "const"} /\ toks[k+1] \in {"ans", "const"}) => ~P.ok

\* ---- C13 ---------------------------------------------------------------
SupOK == P.ok => \A k \in SupSites(toks) :
            LET r2 == Parse(SupToPow(toks, k)) IN r2.ok /\ Er2(r2.node) = Er2(P.node)
SupNoCond == P.ok => \A k \in SupAll(toks) :
            LET r2 == Parse(SupToPow(toks, k)) IN r2.ok /\ Er2(r2.node) = Er2(P.node)   \* negative control
PlusOK == P.ok => \A p \in WPos(toks) :
            LET r2 == Parse(InsPlus(toks, p)) IN r2.ok /\ Er(r2.node) = Er(P.node)
WrapOK == P.ok => \A s \in WrapSites(toks, P.node) :
            LET r2 == Parse(Wrap(toks, s[1], s[2])) IN r2.ok /\ Er(r2.node) = Er(P.node)

\* ---- C20 ---------------------------------------------------------------
Samples == { <<"num">>, <<"num", "add", "num">>, <<"sub", "num">>, <<"num", "pow", "num">>, <<"num", "sup">>,
             <<"num", "lp", "num", "rp">>, <<"f2", "lp", "num", "comma", "num", "rp">> }
          \cup (IF "bang" \in K THEN {<<"num", "bang">>} ELSE {})
          \cup (IF "deg" \in K THEN {<<"num", "deg">>} ELSE {})
          \cup (IF "lf" \in K THEN {<<"lf", "num", "rf">>} ELSE {})
          \cup (IF "or" \in K THEN {<<"num", "or", "num">>, <<"num", "shl", "num">>} ELSE {})
SubstOK == P.ok => \A p \in {q \in 1..Len(toks) : toks[q] = "ans"} : \A X \in Samples :
              LET r2 == Parse(Plug(toks, p, X)) IN r2.ok /\ Er(r2.node) = ErSub(P.node, p, Er(Parse(X).node))

\* ---- named consequences of C04's statement (coverage shows each was exercised) ----
HasSeq(s) == \E i \in 0..(Len(toks) - Len(s)) : SubSeq(toks, i + 1, i + Len(s)) = s
SignTighterThanPow == toks = <<"sub", "num", "pow", "num">> => P.node = <<"pow", <<"neg", <<"num", 2>>>>, <<"num", 4>>>>
SignLooserThanBang == (toks = <<"sub", "num", "bang">> /\ "bang" \in K) => P.node = <<"neg", <<"fact", <<"num", 2>>>>>>
PowRightAbsorbsOnlyBang == (toks = <<"num", "pow", "num", "bang">> /\ "bang" \in K) =>
                              P.node = <<"pow", <<"num", 1>>, <<"fact", <<"num", 3>>>>>>
PowLeftAssoc == toks = <<"num", "pow", "num", "pow", "num">> =>
                   P.node = <<"pow", <<"pow", <<"num", 1>>, <<"num", 3>>>>, <<"num", 5>>>>
\* the examples of C12's statement:  6/2(3) = 6/(2*3),  2^3(4) = 2^(3*4),  -2(3)! = -(2*(3!))
JuxExamples ==
  /\ toks = <<"num", "div", "num", "lp", "num", "rp">> =>
        Er(P.node) = <<"div", <<"num">>, <<"mul", <<"num">>, <<"num">>>>>>
  /\ toks = <<"num", "pow", "num", "lp", "num", "rp">> =>
        Er(P.node) = <<"pow", <<"num">>, <<"mul", <<"num">>, <<"num">>>>>>
  /\ (toks = <<"sub", "num", "lp", "num", "rp", "bang">> /\ "bang" \in K) =>
        Er(P.node) = <<"neg", <<"mul", <<"num">>, <<"fact", <<"num">>>>>>>>

\* ---- emission: one behaviour per state ---------------------------------
Flags == [numnum |-> NumNum(toks), renderable |-> Renderable(toks), jux |-> Sites(toks) # {}]
Behaviour ==
  IF P.ok THEN [toks |-> toks, v |-> "accept", tree |-> P.node, fl |-> Flags,
                ex |-> IF Sites(toks) # {} THEN ExplicitOrigin(toks, [i \in 1..Len(toks) |-> i]) ELSE <<>>,
                ext |-> IF Sites(toks) # {} THEN Explicit(toks) ELSE <<>>,
                sites |-> [sup |-> SupSites(toks), plus |-> WPos(toks), wrap |-> WrapSites(toks, P.node)]]
  ELSE [toks |-> toks, v |-> IF Viable(toks) THEN "incomplete" ELSE "reject", pos |-> P.pos, fl |-> Flags]
Emit == EmitOn => PrintT(<<"BEH", ToJson(Behaviour)>>)
\* the subexpressions E used for the substitution lemma, for the harness (C20 replays exactly these)
ASSUME PrintT(<<"SAMPLES", ToJson(Samples)>>)
=============================================================================
