----------------------------- MODULE ParseSteps -----------------------------
(***************************************************************************)
(* The parser of ParseFn with its step counter (C02): the same procedures, *)
(* each returning [ok, pos, st] where st counts exactly the events the     *)
(* cfg-guarded hook counts in the Rust parser (kind PARSE):                *)
(*    one per entry of generate_ast,                                       *)
(*    one per iteration of its `while` loop,                               *)
(*    one per iteration of the argument loops of                           *)
(*    function_static_arguments and find_item_list.                        *)
(* and the number of nodes the tree walk visits (kind EVAL).               *)
(* MCGrammar checks ParseSt agrees with Parse on ok/pos in every state and *)
(* that st <= 2 + 3 * Len(t); CalcTrace asserts that the step counts       *)
(* recorded from the real code are exactly these.                          *)
(***************************************************************************)
EXTENDS ParseFn

SErr(p, st) == [ok |-> FALSE, pos |-> p, st |-> st]
SOk(p, st)  == [ok |-> TRUE,  pos |-> p, st |-> st]

RECURSIVE GenS(_,_,_), LoopS(_,_,_,_), PNumS(_,_), ImplS(_,_,_), ConvS(_,_), StaticS(_,_,_,_), ItemsS(_,_,_,_)

GenS(t, p, L) == LET r == PNumS(t, p) IN
                 IF r.ok THEN LoopS(t, r.pos, L, 1 + r.st) ELSE SErr(r.pos, 1 + r.st)

LoopS(t, p, L, st) ==
  IF L < Prec(Cur(t, p))
  THEN LET r == ConvS(t, p) IN IF r.ok THEN LoopS(t, r.pos, L, st + 1 + r.st) ELSE SErr(r.pos, st + 1 + r.st)
  ELSE SOk(p, st)

ImplS(t, p, st) ==
  IF Trig(Cur(t, p))
  THEN LET r == GenS(t, p, LvlMul) IN [r EXCEPT !.st = st + r.st]
  ELSE SOk(p, st)

StaticS(t, p, n, st) ==
  LET r == GenS(t, p, LvlZero) IN
  IF ~r.ok THEN SErr(r.pos, st + 1 + r.st)
  ELSE IF n = 1 THEN (IF Cur(t, r.pos) = "rp" THEN SOk(r.pos + 1, st + 1 + r.st) ELSE SErr(r.pos, st + 1 + r.st))
       ELSE IF Cur(t, r.pos) = "comma" THEN StaticS(t, r.pos + 1, n - 1, st + 1 + r.st) ELSE SErr(r.pos, st + 1 + r.st)

\* first: no argument parsed yet
ItemsS(t, p, first, st) ==
  IF first /\ Cur(t, p) = "rp" THEN [ok |-> TRUE, pos |-> p + 1, st |-> st + 1, empty |-> TRUE]
  ELSE LET r == GenS(t, p, LvlZero) IN
       IF ~r.ok THEN [ok |-> FALSE, pos |-> r.pos, st |-> st + 1 + r.st, empty |-> FALSE]
       ELSE IF Cur(t, r.pos) = "comma" THEN ItemsS(t, r.pos + 1, FALSE, st + 1 + r.st)
       ELSE IF Cur(t, r.pos) = "rp" THEN [ok |-> TRUE, pos |-> r.pos + 1, st |-> st + 1 + r.st, empty |-> FALSE]
       ELSE [ok |-> FALSE, pos |-> r.pos, st |-> st + 1 + r.st, empty |-> FALSE]

PNumS(t, p) ==
  LET k == Cur(t, p) IN
  CASE k \in {"ans", "const"} -> SOk(p + 1, 0)
    [] k = "num" -> ImplS(t, p + 1, 0)
    [] k \in {"sub", "add"} -> GenS(t, p + 1, LvlNeg)
    [] k \in Openers ->
         LET r == GenS(t, p + 1, LvlZero) IN
         IF ~r.ok THEN r ELSE IF Cur(t, r.pos) = Close(k) THEN ImplS(t, r.pos + 1, r.st) ELSE SErr(r.pos, r.st)
    [] k \in {"f1", "f2"} ->
         IF Cur(t, p + 1) # "lp" THEN SErr(p + 1, 0)
         ELSE LET r == StaticS(t, p + 2, IF k = "f1" THEN 1 ELSE 2, 0) IN
              IF r.ok THEN ImplS(t, r.pos, r.st) ELSE r
    [] k \in {"fv", "fa"} ->
         IF Cur(t, p + 1) # "lp" THEN SErr(p + 1, 0)
         ELSE LET r == ItemsS(t, p + 2, TRUE, 0) IN
              IF ~r.ok THEN SErr(r.pos, r.st)
              ELSE IF r.empty /\ k = "fv" THEN SErr(r.pos - 1, r.st)
              ELSE ImplS(t, r.pos, r.st)
    [] OTHER -> SErr(p, 0)

ConvS(t, p) ==
  LET k == Cur(t, p) IN
  CASE k \in BinOps -> GenS(t, p + 1, Prec(k))
    [] k = "bang" -> ImplS(t, p + 1, 0)
    [] k \in {"deg", "rad", "sup"} -> SOk(p + 1, 0)
    [] OTHER -> SErr(p, 0)

ParseSt(t) == LET r == GenS(t, 1, LvlZero) IN
              IF r.ok THEN (IF r.pos = Len(t) + 1 THEN r ELSE SErr(r.pos, r.st)) ELSE r

\* nodes the tree walk visits: every Node of the Rust AST is evaluated exactly once when no operation fails
RECURSIVE EvalNodes(_)
EvalNodes(n) ==
  CASE n[1] \in {"num", "ans", "const", "zero"} -> 1
    [] n[1] = "lp" -> EvalNodes(n[2])
    [] n[1] \in {"neg", "fact", "lf", "lc"} -> 1 + EvalNodes(n[2])
    [] n[1] \in {"deg", "rad"} -> 2 + EvalNodes(n[2])                    \* Multiply(x, Number(factor))
    [] n[1] = "psup" -> 2 + EvalNodes(n[2])                              \* Pow(x, Number(exponent))
    [] n[1] \in Funs -> LET RECURSIVE Sum(_)
                            Sum(i) == IF i = 0 THEN 0 ELSE EvalNodes(n[3][i]) + Sum(i - 1)
                        IN 1 + Sum(Len(n[3]))
    [] OTHER -> 1 + EvalNodes(n[2]) + EvalNodes(n[3])

\* linear bound of the parsing work in the number of tokens
ParseStepBound(t) == ParseSt(t).st <= 2 + 3 * Len(t)
=============================================================================
