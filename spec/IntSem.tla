------------------------------- MODULE IntSem -------------------------------
(***************************************************************************)
(* eval_i64 at word size W (C06): every operator as the exact mathematical *)
(* integer operation, Err exactly when the statement says so.  The model's *)
(* own arithmetic stays inside TLC's 32-bit integers for W <= 12.          *)
(*                                                                         *)
(* A result is [k, v]: k = "ok" with the value, "err", or "unspec" (the    *)
(* statement is silent: shl that does not fit, exponent out of range,      *)
(* factorial of a negative number).                                        *)
(***************************************************************************)
EXTENDS Integers, Sequences, FiniteSets, TLC, Bitwise
CONSTANT W

MinI == -(2^(W-1))
MaxI == 2^(W-1) - 1
InR(x) == MinI <= x /\ x <= MaxI
IVals == MinI..MaxI
MaxExp == 2^(W \div 2) - 1          \* 2^32 - 1 at W = 64

IOk(x) == [k |-> "ok", v |-> x]
IErr == [k |-> "err", v |-> 0]
IUnspec == [k |-> "unspec", v |-> 0]
Chk(x) == IF InR(x) THEN IOk(x) ELSE IErr

IAbs(x) == IF x < 0 THEN -x ELSE x
ISgn(x) == IF x > 0 THEN 1 ELSE IF x < 0 THEN -1 ELSE 0
ITDiv(a, b) == ISgn(a) * ISgn(b) * (IAbs(a) \div IAbs(b))      \* truncation toward zero
ITRem(a, b) == a - b * ITDiv(a, b)                              \* sign of the dividend
U(x) == IF x < 0 THEN x + 2^W ELSE x                            \* two's-complement image
S(u) == IF u >= 2^(W-1) THEN u - 2^W ELSE u
FloorDiv(a, d) == IF a >= 0 THEN a \div d ELSE -(((-a) + d - 1) \div d)

\* checked power by iterated checked multiplication: sound because |a|^k is monotone in k
RECURSIVE PowChk(_, _)
PowChk(x, n) == IF n = 0 THEN IOk(1) ELSE LET r == PowChk(x, n - 1) IN IF r.k = "ok" THEN Chk(r.v * x) ELSE r
\* shortcut for the bases whose powers never leave the range (keeps the recursion shallow)
PowI(x, n) == IF x = 0 THEN IOk(IF n = 0 THEN 1 ELSE 0)
              ELSE IF x = 1 THEN IOk(1)
              ELSE IF x = -1 THEN IOk(IF n % 2 = 0 THEN 1 ELSE -1)
              ELSE IF n > W THEN IErr                     \* |x| >= 2: x^n with n > W cannot fit
              ELSE PowChk(x, n)
RECURSIVE FactChk(_)
FactChk(n) == IF n <= 1 THEN IOk(1) ELSE IF n > W THEN IErr
              ELSE LET r == FactChk(n - 1) IN IF r.k = "ok" THEN Chk(r.v * n) ELSE r

IBinOps == {"add", "sub", "mul", "div", "mod", "pow", "and", "or", "shl", "shr"}
IUnOps == {"neg", "abs", "sgn", "fact"}

IBin(op, a, b) ==
  CASE op = "add" -> Chk(a + b)
    [] op = "sub" -> Chk(a - b)
    [] op = "mul" -> Chk(a * b)
    [] op = "div" -> IF b = 0 THEN IErr ELSE Chk(ITDiv(a, b))
    [] op = "mod" -> IF b = 0 THEN IErr ELSE IOk(ITRem(a, b))
    [] op = "pow" -> IF b < 0 \/ b > MaxExp THEN IUnspec ELSE PowI(a, b)
    [] op = "and" -> IOk(S(U(a) & U(b)))
    [] op = "or"  -> IOk(S(U(a) | U(b)))
    [] op = "shl" -> IF b < 0 \/ b >= W THEN IErr ELSE IF InR(a * 2^b) THEN IOk(a * 2^b) ELSE IUnspec
    [] op = "shr" -> IF b < 0 \/ b >= W THEN IErr ELSE IOk(FloorDiv(a, 2^b))

IUn(op, a) ==
  CASE op = "neg" -> Chk(-a)
    [] op = "abs" -> Chk(IAbs(a))
    [] op = "sgn" -> IOk(ISgn(a))
    [] op = "fact" -> IF a < 0 THEN IUnspec ELSE FactChk(a)

(***************************************************************************)
(* The statement of C06, as properties of the definitions above            *)
(* (checked for all operand pairs by MCSem.cfg).                           *)
(***************************************************************************)
\* an Ok result is in range and is the mathematical value; Err exactly on overflow / zero divisor / bad count
ExactBin(op, a, b) ==
  LET r == IBin(op, a, b) IN
  /\ r.k = "ok" => InR(r.v)
  /\ op = "add" => (r.k = "ok" <=> InR(a + b)) /\ (r.k = "ok" => r.v = a + b) /\ r.k # "unspec"
  /\ op = "sub" => (r.k = "ok" <=> InR(a - b)) /\ (r.k = "ok" => r.v = a - b) /\ r.k # "unspec"
  /\ op = "mul" => (r.k = "ok" <=> InR(a * b)) /\ (r.k = "ok" => r.v = a * b) /\ r.k # "unspec"
  /\ op = "div" => /\ (r.k = "err" <=> (b = 0 \/ (a = MinI /\ b = -1)))
                   /\ (r.k = "ok" => /\ IAbs(a) - IAbs(b) * IAbs(r.v) >= 0          \* truncation toward zero
                                     /\ IAbs(a) - IAbs(b) * IAbs(r.v) < IAbs(b)
                                     /\ (r.v # 0 => ISgn(r.v) = ISgn(a) * ISgn(b)))
  /\ op = "mod" => /\ (r.k = "err" <=> b = 0)
                   /\ (r.k = "ok" => /\ IAbs(r.v) < IAbs(b)
                                     /\ (r.v = 0 \/ ISgn(r.v) = ISgn(a))             \* sign of the dividend
                                     /\ a = b * ITDiv(a, b) + r.v)
  /\ op = "shr" => /\ (r.k = "err" <=> (b < 0 \/ b >= W))
                   /\ (r.k = "ok" => (r.v * 2^b <= a /\ a < (r.v + 1) * 2^b))       \* floor(a / 2^b)
  /\ op = "shl" => /\ (r.k = "err" <=> (b < 0 \/ b >= W))
                   /\ (r.k = "ok" => r.v = a * 2^b)
  /\ op = "pow" => /\ (r.k = "unspec" <=> (b < 0 \/ b > MaxExp))
                   /\ ((r.k = "ok" /\ b = 2) => r.v = a * a)
                   /\ ((r.k = "ok" /\ b = 3) => r.v = a * a * a)
                   /\ (b = 0 => r = IOk(1))
                   /\ ((b = 2 /\ ~InR(a * a)) => r.k = "err")
  /\ op \in {"and", "or"} => /\ r.k = "ok"
                             /\ ((a >= 0 /\ b >= 0 /\ op = "and") => (r.v <= a /\ r.v <= b /\ r.v >= 0))
                             /\ ((a >= 0 /\ b >= 0 /\ op = "or") => (r.v >= a /\ r.v >= b))
                             /\ (op = "and" => IBin("and", b, a) = r) /\ (op = "or" => IBin("or", b, a) = r)
                             /\ (op = "and" /\ b = -1 => r.v = a) /\ (op = "or" /\ b = 0 => r.v = a)

ExactUn(op, a) ==
  LET r == IUn(op, a) IN
  /\ r.k = "ok" => InR(r.v)
  /\ op = "neg" => (r.k = "err" <=> a = MinI) /\ (r.k = "ok" => r.v + a = 0)
  /\ op = "abs" => (r.k = "err" <=> a = MinI) /\ (r.k = "ok" => (r.v >= 0 /\ (r.v = a \/ r.v = -a)))
  /\ op = "sgn" => r.k = "ok" /\ r.v \in {-1, 0, 1} /\ (r.v = 0 <=> a = 0) /\ (r.v = 1 <=> a > 0)
  /\ op = "fact" => /\ (a < 0 <=> r.k = "unspec")
                    /\ (a \in {0, 1} => r = IOk(1))
                    /\ ((a >= 2 /\ r.k = "ok") => (LET q == IUn("fact", a - 1) IN q.k = "ok" /\ r.v = a * q.v))

\* what a release build of the pinned code did (wrapping): the negative control that the model tells them apart
Wrap(x) == S(x % 2^W)
RawRelease(op, a, b) ==
  CASE op = "add" -> IOk(Wrap(a + b)) [] op = "sub" -> IOk(Wrap(a - b)) [] op = "mul" -> IOk(Wrap(a * b))
    [] OTHER -> IBin(op, a, b)
=============================================================================
