---------------------------- MODULE ParserTrace ----------------------------
(***************************************************************************)
(* Step-level trace validation of the parser.  Every recorded call carries *)
(* the events the cfg-guarded hook logged inside the real parser:          *)
(*      ["G", n]   generate_ast entered with the precedence of ordinal n   *)
(*      ["L", n]   an iteration of the operator loop of such a frame       *)
(*      ["T", k]   a token of kind k became the current token              *)
(* This module drives ParserMachine through each recorded event list: the  *)
(* machine's own transitions produce its event history `evs`, which must   *)
(* stay a prefix of the recorded list at every step (the only              *)
(* nondeterminism of the machine, the token the environment supplies, is   *)
(* thereby resolved by the log) and must equal it when the machine stops;  *)
(* the machine's verdict must be the one the code reached, and the token   *)
(* kinds the code saw must be the ones the specification's lexer derives   *)
(* from the recorded characters.  One record after the other; acceptance   *)
(* by POSTCONDITION on the record index reached.                           *)
(***************************************************************************)
EXTENDS ParserMachine, CallFn, Json, IOUtils, TLCExt

Rec == ndJsonDeserialize(IOEnv.TRACE)
VARIABLE l                                   \* index of the record being validated
tvars == <<l, hist, stack, ret, status, result, ticks, evs>>

Log(i) == Rec[i].pev
\* a record is validated step by step when the specification's lexer accepts every character and every literal converts
\* (otherwise the real tokenizer stops at that character: the parser sees an error instead of a token)
Toks(i) == Lexed(Rec[i].e, Rec[i].chars)
Steppable(i) == "pev" \in DOMAIN Rec[i] /\ Len(Log(i)) > 0 /\ LexOk(Toks(i)) /\ LitClasses(Rec[i].e, Toks(i)) \subseteq {"ok"}

IsPrefixOf(s, t) == Len(s) <= Len(t) /\ SubSeq(t, 1, Len(s)) = s

StartOn(i) == /\ hist' = <<Log(i)[1][2]>> /\ evs' = <<Log(i)[1]>>
              /\ stack' = <<FGen(LvlZero)>> /\ ret' = NoRet /\ status' = "run"
              /\ result' = [ok |-> FALSE, node |-> <<>>, pos |-> 0] /\ ticks' = 0
Idle == /\ hist' = <<"eof">> /\ evs' = <<>> /\ stack' = <<>> /\ ret' = NoRet /\ status' = "idle"
        /\ result' = [ok |-> FALSE, node |-> <<>>, pos |-> 0] /\ ticks' = 0
Begin(i) == IF i <= Len(Rec) /\ Steppable(i) /\ Log(i)[1][1] = "T" THEN StartOn(i) ELSE Idle

TInit == /\ l = 1
         /\ IF 1 <= Len(Rec) /\ Steppable(1) /\ Log(1)[1][1] = "T"
            THEN /\ hist = <<Log(1)[1][2]>> /\ evs = <<Log(1)[1]>> /\ stack = <<FGen(LvlZero)>> /\ status = "run"
            ELSE /\ hist = <<"eof">> /\ evs = <<>> /\ stack = <<>> /\ status = "idle"
         /\ ret = NoRet /\ result = [ok |-> FALSE, node |-> <<>>, pos |-> 0] /\ ticks = 0
         /\ TLCSet(1, 0) /\ TLCSet(2, 0) /\ TLCSet(3, 1) /\ TLCSet(4, <<>>)

\* one transition of the machine, kept on the recorded event list
MStep == /\ l <= Len(Rec) /\ status = "run"
         /\ MNext
         /\ IsPrefixOf(evs', Log(l))
         /\ UNCHANGED l

\* the kinds of the tokens the code consumed, in order, are a prefix of what the specification lexes (then "eof")
SeenKinds(i) == SelectSeq([j \in 1..Len(Log(i)) |-> IF Log(i)[j][1] = "T" THEN Log(i)[j][2] ELSE "-"], LAMBDA k : k # "-")
LexAgrees(i) == IsPrefixOf(SeenKinds(i), KindsOf(Toks(i)) \o <<"eof">>)
\* the parser's verdict in the code: it went on to evaluate (eval ticks) or returned Ok  <=>  the machine accepted
ParsedInCode(i) == Rec[i].st = "ok" \/ Rec[i].tk.eval > 0
RecordOK(i) == /\ evs = Log(i)                                   \* every recorded event was produced, and nothing else
               /\ (status = "ok") = ParsedInCode(i)
               /\ ticks = Rec[i].tk.parse                         \* the machine's tick counter is the hook's
               /\ LexAgrees(i)
\* the machine has stopped on this record: check it, go to the next one
MDone == /\ l <= Len(Rec) /\ status \in {"ok", "err"}
         /\ RecordOK(l)
         /\ TLCSet(1, TLCGet(1) + 1) /\ TLCSet(2, TLCGet(2) + Len(Log(l)))
         /\ l' = l + 1 /\ Begin(l + 1)
\* records that are not validated step by step (the tokenizer stopped inside the input, or no event log)
MSkip == /\ l <= Len(Rec) /\ status = "idle"
         /\ l' = l + 1 /\ Begin(l + 1)
TNext == MStep \/ MDone \/ MSkip

\* acceptance: every record was consumed; otherwise report where the machine and the log part ways
Accepted ==
  IF TLCGet(3) = Len(Rec) + 1
  THEN PrintT(<<"PTRACE-ACCEPTED", ToJson([records |-> Len(Rec), stepped |-> TLCGet(1), events |-> TLCGet(2)])>>)
  ELSE PrintT(<<"PTRACE-REJECTED", TLCGet(3), ToJson(Rec[TLCGet(3)]), ToJson(TLCGet(4))>>) /\ FALSE
\* (registers 3 and 4 are kept by the constraint below: the furthest record reached and the machine's event history there)
Track == /\ (IF l > TLCGet(3) THEN TLCSet(3, l) /\ TLCSet(4, <<>>) ELSE TRUE)
         /\ (IF l = TLCGet(3) /\ Len(evs) >= Len(TLCGet(4)) THEN TLCSet(4, evs) ELSE TRUE)
=============================================================================
