------------------------------ MODULE Features ------------------------------
(***************************************************************************)
(* C17: the cargo features.  F ranges over the non-empty subsets of the    *)
(* five evaluator features.  What the crate's cfg attributes must achieve: *)
(*   Exports(F)   exactly the selected eval_* functions, Number with       *)
(*                eval_number, ParseError always                           *)
(*   Variants(F)  the variants of OperatorCategory left after cfg          *)
(*                stripping; its derived PartialOrd is the index order     *)
(*   OrderStable  for every evaluator in F, the relative order of the      *)
(*                categories its tokens use is the same as with all        *)
(*                features on - so parsing cannot depend on the subset     *)
(* TLC enumerates all 31 subsets (MCFeatures.cfg) and prints them: the     *)
(* list of builds the conformance check performs comes from here.          *)
(***************************************************************************)
EXTENDS Vocab, Json
FeatureOf == [e \in Evaluators |-> CASE e = "f64" -> "eval_f64" [] e = "i64" -> "eval_i64" [] e = "dec" -> "eval_decimal"
                                     [] e = "cpx" -> "eval_complex" [] e = "num" -> "eval_number"]
Subsets == SUBSET Evaluators \ {{}}

\* the enum as written, each variant with the features that keep it
AllVariants == << <<"DefaultZero", Evaluators>>, <<"BitwiseOr", {"i64"}>>, <<"BitwiseAnd", {"i64"}>>, <<"Shift", {"i64"}>>,
                  <<"Additive", Evaluators>>, <<"Multiplicative", Evaluators>>, <<"Power", Evaluators>>, <<"Negative", Evaluators>>,
                  <<"Functional", Evaluators>> >>
Variants(F) == LET keep == SelectSeq(AllVariants, LAMBDA v : v[2] \cap F # {}) IN [i \in 1..Len(keep) |-> keep[i][1]]
IndexIn(s, x) == CHOOSE i \in 1..Len(s) : s[i] = x
Less(F, a, b) == IndexIn(Variants(F), a) < IndexIn(Variants(F), b)      \* derived PartialOrd

\* categories the tokens of evaluator e are mapped to
CategoryName(l) == CASE l = LvlZero -> "DefaultZero" [] l = LvlOr -> "BitwiseOr" [] l = LvlAnd -> "BitwiseAnd" [] l = LvlShift -> "Shift"
                     [] l = LvlAdd -> "Additive" [] l = LvlMul -> "Multiplicative" [] l = LvlPow -> "Power" [] l = LvlNeg -> "Negative"
                     [] l = LvlFun -> "Functional"
UsedBy(e) == {CategoryName(Prec(k)) : k \in Kinds(e)} \cup {"DefaultZero", "Negative", "Multiplicative", "Additive", "Power"}

Full == Evaluators
OrderStable(F) == \A e \in F : \A a, b \in UsedBy(e) :
                     /\ a \in {Variants(F)[i] : i \in 1..Len(Variants(F))}
                     /\ (Less(F, a, b) <=> Less(Full, a, b))
\* the numeric levels of Vocab are the index order of the full enum
LevelsAreIndices == \A k \in AllKinds : IndexIn(Variants(Full), CategoryName(Prec(k))) = Prec(k) + 1

Exports(F) == {"eval_" \o (CASE e = "f64" -> "f64" [] e = "i64" -> "i64" [] e = "dec" -> "decimal" [] e = "cpx" -> "complex" [] e = "num" -> "number") : e \in F}
              \cup {"ParseError"} \cup (IF "num" \in F THEN {"Number"} ELSE {})
Deps(F) == (IF "dec" \in F THEN {"rust_decimal"} ELSE {}) \cup (IF "cpx" \in F THEN {"num-complex"} ELSE {})

VARIABLE f
Init == f \in Subsets
Next == UNCHANGED f
C17OrderStable == OrderStable(f)
C17Exports == /\ \A e \in Evaluators : (e \in f <=> \E x \in Exports(f) : x = "eval_" \o (CASE e = "f64" -> "f64" [] e = "i64" -> "i64" [] e = "dec" -> "decimal" [] e = "cpx" -> "complex" [] e = "num" -> "number"))
              /\ ("Number" \in Exports(f) <=> "num" \in f)
Emit == PrintT(<<"BEH", ToJson([features |-> {FeatureOf[e] : e \in f}, evals |-> f, exports |-> Exports(f), variants |-> Variants(f), deps |-> Deps(f)])>>)
ASSUME LevelsAreIndices
=============================================================================
