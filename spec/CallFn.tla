------------------------------- MODULE CallFn -------------------------------
(***************************************************************************)
(* One call as a function.  A call is (evaluator, characters,             *)
(* placeholder); its outcome is a function of those three alone:           *)
(*                                                                         *)
(*     Syntax(e, chars)  = Parse(KindsOf(LexAll(e, Strip(chars))))         *)
(*     Outcome(e, chars, ph) on the computable fragment (SmallEval)        *)
(*                                                                         *)
(* This module has no variables: Calc.tla builds the call-level state     *)
(* machine on it, CalcTrace.tla the trace specification.                   *)
(***************************************************************************)
EXTENDS ParseFn, SmallEval

\* ---- one call, as functions ----------------------------------------------
Lexed(e, chars) == LexAll(e, Strip(chars))
\* classes of literal conversion over all tokens
LitClasses(e, toks) == {LitClass(e, toks[i]) : i \in 1..Len(toks)}

\* verdict of the specification on the syntax of an input:
\*   "reject"  the evaluator must return Err
\*   "accept"  well-formed: Ok, or Err from an undefined operation
\*   "unspec"  the properties do not fix the verdict (named rule in `rule`)
Syntax(e, chars) ==
  LET toks == Lexed(e, chars) IN
  IF ~LexOk(toks) THEN [v |-> "reject", rule |-> toks[Len(toks)].fn, toks |-> toks, tree |-> <<>>]
  ELSE LET p == Parse(KindsOf(toks)) IN
       IF ~p.ok THEN [v |-> "reject", rule |-> "grammar", toks |-> toks, tree |-> <<>>]
       ELSE IF "err" \in LitClasses(e, toks) THEN [v |-> "reject", rule |-> "literal out of range", toks |-> toks, tree |-> p.node]
       ELSE IF "unspec" \in LitClasses(e, toks) THEN [v |-> "unspec", rule |-> "OverlongLiteral", toks |-> toks, tree |-> p.node]
       ELSE IF NumNum(KindsOf(toks)) THEN [v |-> "unspec", rule |-> "NumNumJuxtaposition", toks |-> toks, tree |-> p.node]
       ELSE [v |-> "accept", rule |-> "", toks |-> toks, tree |-> p.node]

\* value on the computable fragment; ph is [k, v] as in SmallEval
Value(e, syn, ph) == IF syn.v = "accept" THEN Ev(e, syn.toks, syn.tree, ph) ELSE NA

StepBound(len) == 4096 + 256 * len
=============================================================================
