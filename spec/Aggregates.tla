----------------------------- MODULE Aggregates -----------------------------
(***************************************************************************)
(* C11: min, max, avg, med/median (and gcd, lcm in eval_i64) of a list of  *)
(* evaluated arguments.  Two formulations:                                 *)
(*   declarative  the aggregate of the multiset (minimum by CHOOSE, middle *)
(*                of the sorted list, exact mean, gcd by divisibility)     *)
(*   operational  a left fold with an accumulator, as code computes it     *)
(* MCAgg checks that they agree on every list in the bound and that the    *)
(* result does not depend on the order of the arguments.                   *)
(* An argument ErrArg (999) is one that fails to evaluate: the aggregate is Err.    *)
(***************************************************************************)
EXTENDS Integers, Sequences, FiniteSets, TLC

AAbs(x) == IF x < 0 THEN -x ELSE x
ASgn(x) == IF x > 0 THEN 1 ELSE IF x < 0 THEN -1 ELSE 0
ATDiv(a, b) == ASgn(a) * ASgn(b) * (AAbs(a) \div AAbs(b))
RECURSIVE AGcd(_, _)
AGcd(a, b) == IF b = 0 THEN a ELSE AGcd(b, a % b)
Rat(n, d) == LET g == AGcd(AAbs(n), d) IN IF n = 0 THEN [n |-> 0, d |-> 1] ELSE [n |-> n \div g, d |-> d \div g]

ErrArg == 999      \* marks an argument that fails to evaluate (TLC sets cannot mix integers and strings)
HasErr(s) == \E i \in 1..Len(s) : s[i] = ErrArg
Elems(s) == {s[i] : i \in 1..Len(s)}

\* ---- declarative ---------------------------------------------------------
DMin(s) == CHOOSE x \in Elems(s) : \A y \in Elems(s) : x <= y
DMax(s) == CHOOSE x \in Elems(s) : \A y \in Elems(s) : x >= y
RECURSIVE DSum(_)
DSum(s) == IF s = <<>> THEN 0 ELSE s[1] + DSum(Tail(s))
\* the sorted list: the unique non-decreasing permutation
CountLeq(s, x) == Cardinality({i \in 1..Len(s) : s[i] <= x})
CountLt(s, x)  == Cardinality({i \in 1..Len(s) : s[i] < x})
\* k-th smallest (1-based): the x with CountLt(x) < k <= CountLeq(x)
Kth(s, k) == CHOOSE x \in Elems(s) : CountLt(s, x) < k /\ k <= CountLeq(s, x)
DMedPair(s) == LET n == Len(s) IN IF n % 2 = 1 THEN <<Kth(s, (n + 1) \div 2), Kth(s, (n + 1) \div 2)>> ELSE <<Kth(s, n \div 2), Kth(s, n \div 2 + 1)>>
\* greatest common divisor by divisibility (0 for the all-zero list)
Divides(d, x) == x % d = 0
DGcd(s) == IF \A i \in 1..Len(s) : s[i] = 0 THEN 0
           ELSE LET m == DMax([i \in 1..Len(s) |-> AAbs(s[i])]) IN
                CHOOSE d \in 1..m : (\A i \in 1..Len(s) : Divides(d, AAbs(s[i]))) /\
                                    (\A d2 \in 1..m : (\A i \in 1..Len(s) : Divides(d2, AAbs(s[i]))) => d2 <= d)
\* least common multiple: 0 if an argument is 0, else the least positive common multiple (searched up to the product)
RECURSIVE DProd(_)
DProd(s) == IF s = <<>> THEN 1 ELSE AAbs(s[1]) * DProd(Tail(s))
DLcm(s) == IF \E i \in 1..Len(s) : s[i] = 0 THEN 0
           ELSE CHOOSE l \in 1..DProd(s) : (\A i \in 1..Len(s) : Divides(AAbs(s[i]), l)) /\
                                           (\A l2 \in 1..DProd(s) : (\A i \in 1..Len(s) : Divides(AAbs(s[i]), l2)) => l <= l2)

\* ---- operational (left folds) --------------------------------------------
RECURSIVE FoldMin(_, _), FoldMax(_, _), FoldGcd(_, _), FoldLcm(_, _), InsSorted(_, _), SortL(_)
FoldMin(acc, s) == IF s = <<>> THEN acc ELSE FoldMin(IF s[1] < acc THEN s[1] ELSE acc, Tail(s))
FoldMax(acc, s) == IF s = <<>> THEN acc ELSE FoldMax(IF s[1] > acc THEN s[1] ELSE acc, Tail(s))
FoldGcd(acc, s) == IF s = <<>> THEN acc ELSE FoldGcd(AGcd(acc, AAbs(s[1])), Tail(s))
Lcm2(a, b) == IF a = 0 \/ b = 0 THEN 0 ELSE (a \div AGcd(a, b)) * b
FoldLcm(acc, s) == IF s = <<>> THEN acc ELSE FoldLcm(Lcm2(acc, AAbs(s[1])), Tail(s))
InsSorted(s, x) == IF s = <<>> THEN <<x>> ELSE IF x <= s[1] THEN <<x>> \o s ELSE <<s[1]>> \o InsSorted(Tail(s), x)
SortL(s) == IF s = <<>> THEN <<>> ELSE InsSorted(SortL(Tail(s)), s[1])
OMedPair(s) == LET t == SortL(s) n == Len(s) IN IF n % 2 = 1 THEN <<t[(n + 1) \div 2], t[(n + 1) \div 2]>> ELSE <<t[n \div 2], t[n \div 2 + 1]>>

\* ---- results -------------------------------------------------------------
\* int: eval_i64 (means truncated toward zero); rat: the exact value for the real-valued evaluators
AggResult(f, s) ==
  IF s = <<>> THEN (IF f = "Avg" THEN [k |-> "ok", int |-> 0, rat |-> Rat(0, 1)] ELSE [k |-> "reject", int |-> 0, rat |-> Rat(0, 1)])
  ELSE IF HasErr(s) THEN [k |-> "err", int |-> 0, rat |-> Rat(0, 1)]
  ELSE CASE f = "Min" -> [k |-> "ok", int |-> DMin(s), rat |-> Rat(DMin(s), 1)]
         [] f = "Max" -> [k |-> "ok", int |-> DMax(s), rat |-> Rat(DMax(s), 1)]
         [] f = "Avg" -> [k |-> "ok", int |-> ATDiv(DSum(s), Len(s)), rat |-> Rat(DSum(s), Len(s))]
         [] f = "Med" -> LET p == DMedPair(s) IN [k |-> "ok", int |-> ATDiv(p[1] + p[2], 2), rat |-> Rat(p[1] + p[2], 2)]
         [] f = "Gcd" -> [k |-> "ok", int |-> DGcd(s), rat |-> Rat(0, 1)]
         [] f = "Lcm" -> [k |-> "ok", int |-> DLcm(s), rat |-> Rat(0, 1)]

\* operational = declarative
FoldsAgree(s) == (s # <<>> /\ ~HasErr(s)) =>
  /\ FoldMin(s[1], Tail(s)) = DMin(s)
  /\ FoldMax(s[1], Tail(s)) = DMax(s)
  /\ OMedPair(s) = DMedPair(s)
  /\ FoldGcd(0, s) = DGcd(s)
  /\ (DProd(s) <= 3000 => FoldLcm(1, s) = DLcm(s))
\* the accumulator must be the first element (or the identity): the pinned eval_i64 started min from i64::MIN
BadMinFold(s) == FoldMin(-128, s)
=============================================================================
