------------------------------ MODULE ParseFn ------------------------------
(***************************************************************************)
(* The precedence-climbing parser of string_calculator as recursive        *)
(* operators over a sequence of token kinds: procedure for procedure the   *)
(* Rust (generate_ast / parse_number / implicit_multiply /                 *)
(* function_static_arguments / find_item_list / check_paren /              *)
(* convert_token_to_node), with the one intended deviation that Parse      *)
(* requires end of input after the top-level expression (C03).             *)
(*                                                                         *)
(* A result is [ok, node, pos]: pos is the index of the current token      *)
(* after the call (on failure: the index of the offending token).          *)
(*                                                                         *)
(* Nodes (tuples; p is the index of the token the leaf/function came from):*)
(*   <<"num",p>> <<"ans",p>> <<"const",p>> <<"zero",p>>                      *)
(*   <<"neg",x>> <<"fact",x>> <<"deg",x>> <<"rad",x>> <<"psup",x,p>>       *)
(*   <<"lp",x>> <<"lf",x>> <<"lc",x>>          bracket groups              *)
(*   <<"f1"|"f2"|"fv"|"fa", p, <<args>>>>      calls                       *)
(*   <<binop,l,r>>  <<"imul",l,r>>             explicit / implicit product *)
(***************************************************************************)
EXTENDS Vocab

Cur(t, p) == IF p <= Len(t) THEN t[p] ELSE "eof"
ErrAt(p)  == [ok |-> FALSE, node |-> <<>>, pos |-> p]
Ok(n, p)  == [ok |-> TRUE,  node |-> n,    pos |-> p]

RECURSIVE Gen(_,_,_), Loop(_,_,_,_), PNum(_,_), Impl(_,_,_), Conv(_,_,_), Static(_,_,_,_), Items(_,_,_)

\* generate_ast(oper_prec)
Gen(t, p, L) == LET r == PNum(t, p) IN IF r.ok THEN Loop(t, r.pos, L, r.node) ELSE r

\* while oper_prec < current.get_oper_prec() { if Eof break; left = convert_token_to_node(left) }
Loop(t, p, L, left) ==
  IF L < Prec(Cur(t, p))
  THEN LET r == Conv(t, p, left) IN IF r.ok THEN Loop(t, r.pos, L, r.node) ELSE r
  ELSE Ok(left, p)

\* implicit_multiply(node)
Impl(t, p, node) ==
  IF Trig(Cur(t, p))
  THEN LET r == Gen(t, p, LvlMul) IN IF r.ok THEN Ok(<<"imul", node, r.node>>, r.pos) ELSE r
  ELSE Ok(node, p)

\* function_static_arguments(n), entered at the token after "("
Static(t, p, n, acc) ==
  LET r == Gen(t, p, LvlZero) IN
  IF ~r.ok THEN r
  ELSE IF n = 1 THEN (IF Cur(t, r.pos) = "rp" THEN Ok(Append(acc, r.node), r.pos + 1) ELSE ErrAt(r.pos))
       ELSE IF Cur(t, r.pos) = "comma" THEN Static(t, r.pos + 1, n - 1, Append(acc, r.node)) ELSE ErrAt(r.pos)

\* find_item_list(LeftParen, RightParen), entered at the token after "("
Items(t, p, acc) ==
  IF acc = <<>> /\ Cur(t, p) = "rp" THEN Ok(acc, p + 1)
  ELSE LET r == Gen(t, p, LvlZero) IN
       IF ~r.ok THEN r
       ELSE IF Cur(t, r.pos) = "comma" THEN Items(t, r.pos + 1, Append(acc, r.node))
       ELSE IF Cur(t, r.pos) = "rp" THEN Ok(Append(acc, r.node), r.pos + 1)
       ELSE ErrAt(r.pos)

\* parse_number()
PNum(t, p) ==
  LET k == Cur(t, p) IN
  CASE k = "ans"   -> Ok(<<"ans", p>>, p + 1)
    [] k = "const" -> Ok(<<"const", p>>, p + 1)
    [] k = "num"   -> Impl(t, p + 1, <<"num", p>>)
    [] k = "sub"   -> LET r == Gen(t, p + 1, LvlNeg) IN IF r.ok THEN Ok(<<"neg", r.node>>, r.pos) ELSE r
    [] k = "add"   -> Gen(t, p + 1, LvlNeg)
    [] k \in Openers ->
         LET r == Gen(t, p + 1, LvlZero) IN
         IF ~r.ok THEN r
         ELSE IF Cur(t, r.pos) = Close(k) THEN Impl(t, r.pos + 1, <<k, r.node>>) ELSE ErrAt(r.pos)
    [] k \in {"f1", "f2"} ->
         IF Cur(t, p + 1) # "lp" THEN ErrAt(p + 1)
         ELSE LET r == Static(t, p + 2, IF k = "f1" THEN 1 ELSE 2, <<>>) IN
              IF r.ok THEN Impl(t, r.pos, <<k, p, r.node>>) ELSE r
    [] k \in {"fv", "fa"} ->
         IF Cur(t, p + 1) # "lp" THEN ErrAt(p + 1)
         ELSE LET r == Items(t, p + 2, <<>>) IN
              IF ~r.ok THEN r
              ELSE IF r.node = <<>> THEN (IF k = "fv" THEN ErrAt(r.pos - 1) ELSE Impl(t, r.pos, <<"zero", p>>))
              ELSE Impl(t, r.pos, <<k, p, r.node>>)
    [] OTHER -> ErrAt(p)

\* convert_token_to_node(left)
Conv(t, p, left) ==
  LET k == Cur(t, p) IN
  CASE k \in BinOps -> LET r == Gen(t, p + 1, Prec(k)) IN IF r.ok THEN Ok(<<k, left, r.node>>, r.pos) ELSE r
    [] k = "bang" -> Impl(t, p + 1, <<"fact", left>>)
    [] k \in {"deg", "rad"} -> Ok(<<k, left>>, p + 1)
    [] k = "sup" -> Ok(<<"psup", left, p>>, p + 1)
    [] OTHER -> ErrAt(p)         \* a function token in operator position

\* parse(): the whole input must be one expression
Parse(t) == LET r == Gen(t, 1, LvlZero) IN
            IF r.ok THEN (IF r.pos = Len(t) + 1 THEN r ELSE ErrAt(r.pos)) ELSE r

\* what the pinned code did: the value of a prefix (kept to state the defect, never used as the oracle)
ParsePrefix(t) == Gen(t, 1, LvlZero)

\* the parse fails only because the input ended: some extension may still be accepted
Viable(t) == LET r == Parse(t) IN r.ok \/ r.pos = Len(t) + 1

(***************************************************************************)
(* Which token sequences can be written down at all?  (two adjacent        *)
(* literals or superscript runs would merge into one; a function token is  *)
(* only produced in front of "(")                                          *)
(***************************************************************************)
Renderable(t) ==
  /\ \A i \in 1..(Len(t) - 1) : ~(t[i] = "num" /\ t[i+1] = "num") /\ ~(t[i] = "sup" /\ t[i+1] = "sup")
  /\ \A i \in 1..Len(t) : t[i] \in Funs => (i < Len(t) /\ t[i+1] = "lp")

\* number-number juxtaposition: accepted by the parser, but no property says what it means
NumNum(t) == \E i \in 1..(Len(t) - 1) : t[i] = "num" /\ t[i+1] = "num"
=============================================================================
