----------------------------- MODULE CalcTrace -----------------------------
(***************************************************************************)
(* Trace validation: every call the harness really made (recorded as one   *)
(* ndjson event) must be a behaviour of the specification.  One event is   *)
(* consumed per step; the specification recomputes the call with its own   *)
(* Lexer -> ParseFn -> SmallEval and checks the recorded outcome against   *)
(* it:                                                                     *)
(*   claim   the token kinds the harness says it rendered are the ones the *)
(*           spec lexes from the recorded characters                       *)
(*   status  reject => Err;  accept => Ok or Err;  never panic / budget    *)
(*   ticks   the recorded step count respects 4096 + 256*len        (C02)  *)
(*   value   on the computable fragment the recorded value is the spec's   *)
(*   ast     the tree the parser built is the specification's (AstShape)   *)
(*   pure    a repeated key has the outcome recorded the first time (C16)  *)
(***************************************************************************)
EXTENDS CallFn, ParseSteps, AstShape, Json, IOUtils, TLC, TLCExt

Rec == ndJsonDeserialize(IOEnv.TRACE)

VARIABLES l, seen
tvars == <<l, seen>>

PhOf(ev) == IF ev.ph.t \in {"int", "Integer", "Float"} THEN Val(ev.ph.v) ELSE NA

HasClaim(ev) == "claim" \in DOMAIN ev /\ "kinds" \in DOMAIN ev.claim
ClaimOK(ev, syn) ==
  HasClaim(ev) =>
     LET ck == ev.claim.kinds IN
     \* a claimed sequence containing the foreign token only claims that lexing fails
     IF \E i \in 1..Len(ck) : ck[i] = "bad" THEN ~LexOk(syn.toks)
     ELSE LexOk(syn.toks) /\ KindsOf(syn.toks) = ck

StatusOK(ev, syn) ==
  /\ ev.st \in {"ok", "err"}
  /\ syn.v = "reject" => ev.st = "err"

TicksOK(ev) == ev.ticks <= StepBound(ev.len) /\ ev.len = Len(ev.chars)

\* the step counts recorded by the hook are exactly the ones the specification's parser and tree walk take
StepsOK(ev, syn) ==
  "tk" \in DOMAIN ev =>
     /\ ev.tk.lex + ev.tk.parse + ev.tk.eval + ev.tk.loops = ev.ticks
     /\ ev.tk.lex <= 2 * ev.len + 2
     \* (a literal the evaluator cannot convert stops its tokenizer there: the parser never sees the later tokens)
     /\ (LexOk(syn.toks) /\ LitClasses(ev.e, syn.toks) \subseteq {"ok"}) => ev.tk.parse = ParseSt(KindsOf(syn.toks)).st
     /\ (ev.st = "ok" /\ syn.v = "accept") => ev.tk.eval = EvalNodes(syn.tree)
     /\ syn.v = "reject" /\ syn.rule # "literal out of range" => ev.tk.eval = 0

ValueOK(ev, syn) ==
  LET val == Value(ev.e, syn, PhOf(ev)) IN
  /\ val.k = "err" => ev.st = "err"
  /\ val.k = "val" => /\ ev.st = "ok"
                      /\ ev.val.t \in {"int", "Integer", "Float"}
                      /\ ev.val.v = val.v

\* the tree the code's parser built (kept by the hook, reduced to its shape) is the tree of the parser definition; nothing the
\* grammar rejects gets a tree; what it accepts and the evaluator answered with Ok has one (drivers that record on another
\* thread than the calling one carry no tree: field "noast")
AstOK(ev, syn) ==
  /\ syn.v = "reject" => "ast" \notin DOMAIN ev
  /\ (syn.v = "accept" /\ "ast" \in DOMAIN ev) => ev.ast = Flat(Shape(syn.tree, syn.toks))
  /\ (syn.v = "accept" /\ ev.st = "ok" /\ "noast" \notin DOMAIN ev) => "ast" \in DOMAIN ev

PureOK(ev) == ("kid" \in DOMAIN ev /\ ev.kid \in DOMAIN seen) =>
                 /\ seen[ev.kid].canon = ev.canon
                 /\ seen[ev.kid].e = ev.e /\ seen[ev.kid].chars = ev.chars

Diag(ev, failedAt) ==
  LET syn == Syntax(ev.e, ev.chars) IN
  [failed |-> failedAt,       \* the conjunct of EventOK that was being evaluated when the event was refused
   claim |-> ClaimOK(ev, syn), status |-> StatusOK(ev, syn), ticks |-> TicksOK(ev) /\ StepsOK(ev, syn), ast |-> AstOK(ev, syn),
   shape |-> IF syn.v = "accept" THEN Flat(Shape(syn.tree, syn.toks)) ELSE <<>>,
   parse_steps |-> IF LexOk(syn.toks) THEN ParseSt(KindsOf(syn.toks)).st ELSE -1,
   eval_nodes |-> IF syn.v = "accept" THEN EvalNodes(syn.tree) ELSE -1, value |-> ValueOK(ev, syn), pure |-> failedAt # "pure",
   verdict |-> syn.v, rule |-> syn.rule, kinds |-> KindsOf(syn.toks), expected |-> Value(ev.e, syn, PhOf(ev))]

EventOK(ev) ==
  LET syn == Syntax(ev.e, ev.chars) IN
  /\ TLCSet(7, "claim")  /\ ClaimOK(ev, syn)
  /\ TLCSet(7, "status") /\ StatusOK(ev, syn)
  /\ TLCSet(7, "ast")    /\ AstOK(ev, syn)
  /\ TLCSet(7, "ticks")  /\ TicksOK(ev) /\ StepsOK(ev, syn)
  /\ TLCSet(7, "value")  /\ ValueOK(ev, syn)
  /\ TLCSet(7, "pure")   /\ PureOK(ev)
  /\ TLCSet(7, "none")

\* counters (TLC registers; the trace spec runs with one worker): what was actually decided
Count(ev) ==
  LET syn == Syntax(ev.e, ev.chars) val == Value(ev.e, syn, PhOf(ev)) IN
  /\ TLCSet(1, TLCGet(1) + (IF val.k = "val" THEN 1 ELSE 0))
  /\ TLCSet(2, TLCGet(2) + (IF val.k = "err" THEN 1 ELSE 0))
  /\ TLCSet(3, TLCGet(3) + (IF syn.v = "reject" THEN 1 ELSE 0))
  /\ TLCSet(4, TLCGet(4) + (IF syn.v = "accept" THEN 1 ELSE 0))
  /\ TLCSet(5, TLCGet(5) + (IF syn.v = "unspec" THEN 1 ELSE 0))
  /\ TLCSet(6, TLCGet(6) + (IF HasClaim(ev) THEN 1 ELSE 0))

TInit == l = 1 /\ seen = <<>> /\ (\A i \in 1..6 : TLCSet(i, 0)) /\ TLCSet(7, "none") /\ TLCSet(8, <<>>)
\* every event is consumed; one that is not a behaviour of the specification is noted (register 8: its index and the conjunct of
\* EventOK that refused it) and validation goes on with the next - one pass finds every refused event of the trace
TCall == /\ l <= Len(Rec)
         /\ Rec[l].ev = "Call"
         /\ IF EventOK(Rec[l]) THEN Count(Rec[l]) ELSE TLCSet(8, Append(TLCGet(8), <<l, TLCGet(7)>>))
         /\ seen' = IF "kid" \in DOMAIN Rec[l] /\ Rec[l].kid \notin DOMAIN seen
                    THEN (Rec[l].kid :> [canon |-> Rec[l].canon, e |-> Rec[l].e, chars |-> Rec[l].chars]) @@ seen
                    ELSE seen
         /\ l' = l + 1
\* between concatenated runs: forget what was seen (a new process)
TReset == /\ l <= Len(Rec) /\ Rec[l].ev = "Reset" /\ seen' = <<>> /\ l' = l + 1
TNext == TCall \/ TReset
TSpec == TInit /\ [][TNext]_tvars

\* acceptance: every event was consumed (else the trace itself is malformed) and none was refused; the refused ones are printed
\* (at most 80 per refusing conjunct in full)
Accepted ==
  LET d == TLCGet("stats").diameter
      bad == TLCGet(8) IN
  IF d - 1 # Len(Rec) THEN PrintT(<<"TRACE-STUCK", d>>) /\ FALSE
  ELSE /\ \A c \in {"claim", "status", "ast", "ticks", "value", "pure"} :
            LET bc == SelectSeq(bad, LAMBDA b : b[2] = c) IN
            \A i \in 1..Len(bc) : i > 80 \/ PrintT(<<"TRACE-REJECTED", bc[i][1], ToJson(Rec[bc[i][1]]), ToJson(Diag(Rec[bc[i][1]], c))>>)
       /\ PrintT(<<"TRACE-ACCEPTED", ToJson([events |-> Len(Rec), value_decided |-> TLCGet(1), error_decided |-> TLCGet(2),
                                            rejects |-> TLCGet(3), accepts |-> TLCGet(4), unspecified |-> TLCGet(5), claims |-> TLCGet(6),
                                            refused |-> Len(bad)])>>)
=============================================================================
