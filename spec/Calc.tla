-------------------------------- MODULE Calc --------------------------------
(***************************************************************************)
(* The call level as a state machine: threads invoke and return calls.     *)
(* There is deliberately no variable through which one call could reach    *)
(* another: `inflight` holds the calls in progress, `history` the completed*)
(* ones.  Pure (C16) says two completed calls with the same key have the   *)
(* same outcome, whatever happened in between and concurrently.            *)
(***************************************************************************)
EXTENDS CallFn

\* ---- the call-level state machine ----------------------------------------
CONSTANTS Threads, Keys      \* Keys: a finite set of [e, chars, ph] used by the model-checking configuration
VARIABLES inflight, history
cvars == <<inflight, history>>
None == [none |-> TRUE]

OutcomeOf(key) ==
  LET syn == Syntax(key.e, key.chars) val == Value(key.e, syn, key.ph) IN
  [v |-> syn.v, val |-> val]

CInit == inflight = [t \in Threads |-> None] /\ history = <<>>
Invoke(t, key) == /\ inflight[t] = None
                  /\ inflight' = [inflight EXCEPT ![t] = key]
                  /\ UNCHANGED history
Return(t) == /\ inflight[t] # None
             /\ history' = Append(history, [key |-> inflight[t], thread |-> t, out |-> OutcomeOf(inflight[t])])
             /\ inflight' = [inflight EXCEPT ![t] = None]
CNext == \E t \in Threads : (\E k \in Keys : Invoke(t, k)) \/ Return(t)
CSpec == CInit /\ [][CNext]_cvars

\* C16: the outcome is a function of the key
Pure == \A i, j \in 1..Len(history) : history[i].key = history[j].key => history[i].out = history[j].out
\* the history only grows, completed calls never change
AppendOnly == [][Len(history') >= Len(history) /\ SubSeq(history', 1, Len(history)) = history]_cvars
=============================================================================
