
