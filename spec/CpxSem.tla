------------------------------- MODULE CpxSem -------------------------------
(***************************************************************************)
(* eval_complex's field arithmetic (C08) on Gaussian integers: + - * and   *)
(* unary minus by the textbook component formulas, with i*i = -1.  (On     *)
(* small integers the double operations of the implementation are exact,   *)
(* which is what the conformance vectors compare.)  / abs and the          *)
(* transcendental functions are named primitives of the harness's oracle.  *)
(***************************************************************************)
EXTENDS Integers, TLC
CONSTANT R                                   \* components range over -R..R

Z(re, im) == [re |-> re, im |-> im]
CVals == {Z(x, y) : x \in (-R)..R, y \in (-R)..R}
CAdd(a, b) == Z(a.re + b.re, a.im + b.im)
CSub(a, b) == Z(a.re - b.re, a.im - b.im)
CMul(a, b) == Z(a.re * b.re - a.im * b.im, a.re * b.im + a.im * b.re)
CNeg(a)    == Z(-a.re, -a.im)
I == Z(0, 1)
Norm2(a) == a.re * a.re + a.im * a.im

CBinOps == {"add", "sub", "mul"}
CBin(op, a, b) == CASE op = "add" -> CAdd(a, b) [] op = "sub" -> CSub(a, b) [] op = "mul" -> CMul(a, b)

\* the field laws the statement relies on, for every pair in the range
C08Field(a, b) ==
  /\ CMul(I, I) = Z(-1, 0)                                   \* i*i = -1
  /\ CMul(a, b) = CMul(b, a) /\ CAdd(a, b) = CAdd(b, a)
  /\ CSub(a, b) = CAdd(a, CNeg(b))
  /\ CMul(a, Z(1, 0)) = a /\ CAdd(a, Z(0, 0)) = a
  /\ Norm2(CMul(a, b)) = Norm2(a) * Norm2(b)                 \* the modulus is multiplicative
  /\ CMul(a, Z(a.re, -a.im)) = Z(Norm2(a), 0)                \* z * conj z = |z|^2
  /\ CMul(Z(0, a.im), Z(0, b.im)) = Z(-(a.im * b.im), 0)      \* imaginary literals: (xi)(yi) = -xy
C08Distributive(a, b, c) == CMul(a, CAdd(b, c)) = CAdd(CMul(a, b), CMul(a, c))
=============================================================================
