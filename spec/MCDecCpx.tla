------------------------------ MODULE MCDecCpx ------------------------------
(* Exhaustive check of DecSem (all operand pairs of the toy decimal format) and CpxSem (all pairs of Gaussian integers in  *)
(* the range), and emission of the vectors that tie the harness's reference interpreter (instantiated at the same toy       *)
(* format) to these definitions.  EmitEvery thins the decimal vectors (1 = all).                                            *)
EXTENDS DecSem, Json
CONSTANTS R, EmitOn, EmitEvery
VARIABLES kind, op, a, b
CX == INSTANCE CpxSem WITH R <- R
\* the examples of C07's statement need three digits and two places, whatever format is enumerated
D32 == INSTANCE DecSem WITH P <- 3, S <- 2
ASSUME D32!C07Examples
ASSUME D32!DSub([c |-> 3, s |-> 1], [c |-> 1, s |-> 1]) = D32!DOk(2, 1)            \* 0.3 - 0.1 = 0.2
ASSUME D32!DDiv([c |-> 1, s |-> 0], [c |-> 3, s |-> 0]).k = "quot"               \* 1/3 does not terminate
ASSUME D32!DDiv([c |-> 1, s |-> 0], [c |-> 8, s |-> 0]).k = "quot"               \* 1/8 = 0.125 needs three places: within the tolerance
ASSUME D32!DDiv([c |-> 1, s |-> 0], [c |-> 4, s |-> 0]) = D32!DOk(25, 2)          \* 1/4 = 0.25
ASSUME D32!DMul([c |-> 999, s |-> 0], [c |-> 2, s |-> 0]) = D32!DErr             \* outside the range

Init == \/ kind = "dbin" /\ op \in DBinOps /\ a \in DVals /\ b \in DVals
        \/ kind = "cbin" /\ op \in CX!CBinOps /\ a \in CX!CVals /\ b \in CX!CVals
Next == UNCHANGED <<kind, op, a, b>>

C07Exact == kind = "dbin" => (C07Arith(op, a, b) /\ C07DivMod(op, a, b) /\ C07Examples)
C08Exact == kind = "cbin" => (CX!C08Field(a, b) /\ CX!C08Distributive(a, b, CX!Z(a.im, b.re)))
\* negative control: adding the coefficients without aligning the scales is NOT the specified sum (expected: violated)
NoAlign == (kind = "dbin" /\ op = "add") => DAdd(a, b) = Classify(a.c + b.c, DMax(a.s, b.s))

Result == IF kind = "dbin" THEN DBin(op, a, b) ELSE CX!CBin(op, a, b)
Emit == (EmitOn /\ (kind = "cbin" \/ (a.c * 7 + b.c * 3 + a.s + 2 * b.s) % EmitEvery = 0)) =>
           PrintT(<<"BEH", ToJson([kind |-> kind, op |-> op, a |-> a, b |-> b, p |-> P, s |-> S, r |-> Result])>>)
=============================================================================
