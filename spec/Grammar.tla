------------------------------ MODULE Grammar ------------------------------
(***************************************************************************)
(* Independent formulations of what "correct parsing" means.  Nothing here *)
(* shares structure with precedence climbing; TLC checks each against      *)
(* ParseFn on every token sequence in the bound (MC_Grammar*.cfg).         *)
(*                                                                         *)
(*   Rec        C03  a recogniser: one scan with a mode and a bracket stack*)
(*   RTree      C04  grouping by root selection with a capture relation    *)
(*   Explicit   C12  juxtaposition rewritten to ( A * ( R ) )              *)
(*   SupToPow, InsPlus, Wrap, Plug   C13 / C20 rewrites with their side    *)
(*              conditions                                                 *)
(***************************************************************************)
EXTENDS ParseFn, Integers

SetMax(S) == CHOOSE x \in S : \A y \in S : y <= x
SetMin(S) == CHOOSE x \in S : \A y \in S : x <= y

(***************************************************************************)
(* C03 - recogniser.                                                       *)
(* st = [mode, jux, stk, fk]                                               *)
(*   mode "W" wants an operand, "H" has an operand, "F" saw a function     *)
(*        name and wants "(", "X" dead                                     *)
(*   jux  the operand just completed may start an implicit product         *)
(*   stk  bracket frames [close, call, need, first, emptyOk]               *)
(*        need = commas still required (99: any number)                    *)
(***************************************************************************)
Fr(close, call, need, first, emptyOk) ==
  [close |-> close, call |-> call, need |-> need, first |-> first, emptyOk |-> emptyOk]
Dead  == [mode |-> "X", jux |-> FALSE, stk |-> <<>>, fk |-> "none"]
Start == [mode |-> "W", jux |-> FALSE, stk |-> <<>>, fk |-> "none"]
Top(s) == s.stk[Len(s.stk)]
Pop(s) == SubSeq(s.stk, 1, Len(s.stk) - 1)

StartOperand(s, k) ==
  CASE k = "num" -> [s EXCEPT !.mode = "H", !.jux = TRUE]
    [] k \in {"ans", "const"} -> [s EXCEPT !.mode = "H", !.jux = FALSE]
    [] k \in Openers -> [s EXCEPT !.mode = "W", !.stk = Append(s.stk, Fr(Close(k), FALSE, 0, FALSE, FALSE))]
    [] k \in Funs -> [s EXCEPT !.mode = "F", !.fk = k]
    [] OTHER -> Dead

MarkArg(s) == IF s.stk # <<>> /\ Top(s).first THEN [s EXCEPT !.stk[Len(s.stk)].first = FALSE] ELSE s

Step(s, k) ==
  CASE s.mode = "X" -> Dead
    [] s.mode = "F" ->
         IF k = "lp"
         THEN [s EXCEPT !.mode = "W", !.fk = "none",
                        !.stk = Append(s.stk, Fr("rp", TRUE,
                                   CASE s.fk = "f1" -> 0 [] s.fk = "f2" -> 1 [] OTHER -> 99,
                                   TRUE, s.fk = "fa"))]
         ELSE Dead
    [] s.mode = "W" ->
         IF k \in {"add", "sub"} THEN MarkArg(s)
         ELSE IF k = "rp" /\ s.stk # <<>> /\ Top(s).call /\ Top(s).first /\ Top(s).need = 99
              THEN (IF Top(s).emptyOk THEN [s EXCEPT !.mode = "H", !.jux = TRUE, !.stk = Pop(s)] ELSE Dead)
         ELSE StartOperand(MarkArg(s), k)
    [] s.mode = "H" ->
         IF k \in BinOps THEN [s EXCEPT !.mode = "W"]
         ELSE IF k = "bang" THEN [s EXCEPT !.jux = TRUE]
         ELSE IF k \in {"deg", "rad", "sup"} THEN [s EXCEPT !.jux = FALSE]
         ELSE IF s.jux /\ Trig(k) THEN StartOperand(s, k)
         ELSE IF k = "comma" THEN
              (IF s.stk # <<>> /\ Top(s).call /\ Top(s).need > 0
               THEN [s EXCEPT !.mode = "W",
                              !.stk[Len(s.stk)].need = IF Top(s).need = 99 THEN 99 ELSE Top(s).need - 1]
               ELSE Dead)
         ELSE IF k \in Closers THEN
              (IF s.stk # <<>> /\ Top(s).close = k /\ (Top(s).call => Top(s).need \in {0, 99})
               THEN [s EXCEPT !.jux = TRUE, !.stk = Pop(s)]
               ELSE Dead)
         ELSE Dead

RECURSIVE Scan(_, _, _)
Scan(s, t, i) == IF i > Len(t) THEN s ELSE Scan(Step(s, t[i]), t, i + 1)
Rec(t)       == LET s == Scan(Start, t, 1) IN s.mode = "H" /\ s.stk = <<>>
RecViable(t) == Scan(Start, t, 1).mode # "X"

(***************************************************************************)
(* C04 - grouping by root selection.                                       *)
(***************************************************************************)
\* depth of position k relative to span start i: #openers - #closers in t[i..k-1]
RECURSIVE Depth(_, _, _)
Depth(t, i, k) == IF k <= i THEN 0
                  ELSE Depth(t, i, k - 1) + (IF t[k-1] \in Openers THEN 1 ELSE IF t[k-1] \in Closers THEN -1 ELSE 0)
AtTop(t, i, k) == Depth(t, i, k) = 0 /\ t[k] \notin Closers

\* a + or - is a prefix sign at the span start, after a binary operator or sign, after an opener or a comma
IsPrefixPos(t, i, k) == t[k] \in {"add", "sub"} /\ (k = i \/ t[k-1] \in BinOps \/ t[k-1] \in Openers \/ t[k-1] = "comma")
IsBinaryAt(t, i, k)  == AtTop(t, i, k) /\ t[k] \in BinOps /\ ~IsPrefixPos(t, i, k)
IsPrefixAt(t, i, k)  == AtTop(t, i, k) /\ IsPrefixPos(t, i, k)
IsPostfixAt(t, i, k) == AtTop(t, i, k) /\ t[k] \in Postfix
Rbp(t, i, k) == IF IsPrefixAt(t, i, k) THEN LvlNeg ELSE Prec(t[k])     \* right binding power
OpAt(t, i, k) == IsBinaryAt(t, i, k) \/ IsPostfixAt(t, i, k)

\* b captures a later candidate m iff m and every candidate between them lie strictly above rbp(b).
\* The chain = candidates captured by nobody; the root is the last chain member.
InChain(t, i, j, m) ==
   /\ OpAt(t, i, m)
   /\ \A b \in i..(m-1) : (IsBinaryAt(t, i, b) \/ IsPrefixAt(t, i, b)) =>
         \/ Prec(t[m]) <= Rbp(t, i, b)
         \/ \E c \in (b+1)..(m-1) : OpAt(t, i, c) /\ Prec(t[c]) <= Rbp(t, i, b)
Chain(t, i, j) == {m \in i..j : InChain(t, i, j, m)}
Commas(t, i, j) == {k \in i..j : t[k] = "comma" /\ Depth(t, i, k) = 0}

RECURSIVE RTree(_, _, _), ArgList(_, _, _)
ArgList(t, i, j) ==
   LET cs == Commas(t, i, j) IN
   IF cs = {} THEN <<RTree(t, i, j)>>
   ELSE LET c == SetMin(cs) IN <<RTree(t, i, c - 1)>> \o ArgList(t, c + 1, j)
RTree(t, i, j) ==
   LET ch == Chain(t, i, j) IN
   IF ch # {} THEN
      LET k == SetMax(ch) IN
      IF t[k] \in BinOps THEN <<t[k], RTree(t, i, k - 1), RTree(t, k + 1, j)>>
      ELSE IF t[k] = "bang" THEN <<"fact", RTree(t, i, k - 1)>>
      ELSE IF t[k] = "sup" THEN <<"psup", RTree(t, i, k - 1), k>>
      ELSE <<t[k], RTree(t, i, k - 1)>>
   ELSE IF t[i] = "sub" THEN <<"neg", RTree(t, i + 1, j)>>
   ELSE IF t[i] = "add" THEN RTree(t, i + 1, j)
   ELSE IF t[i] \in {"num", "ans", "const"} THEN <<t[i], i>>
   ELSE IF t[i] \in Openers THEN <<t[i], RTree(t, i + 1, j - 1)>>
   ELSE IF j = i + 2 THEN <<"zero", i>> ELSE <<t[i], i, ArgList(t, i + 2, j - 1)>>

JuxSite(t, k) == k < Len(t) /\ (t[k] = "num" \/ t[k] \in Closers \/ t[k] = "bang") /\ Trig(t[k+1])
JuxFree(t) == \A k \in 1..Len(t) : ~JuxSite(t, k)

(***************************************************************************)
(* C12 - juxtaposition made explicit: leftmost site  A B  ->  ( A * ( R ) )*)
(***************************************************************************)
D(t, p) == Depth(t, 1, p)
Sites(t) == {k \in 1..Len(t) : JuxSite(t, k)}
RegionStart(t, k) ==
  SetMax({1} \cup {p + 1 : p \in {q \in 1..(k-1) : (t[q] \in Openers /\ D(t, q) = D(t, k) - 1)
                                                \/ (t[q] = "comma" /\ D(t, q) = D(t, k))}})
SameLevel(t, rs, k, p) == p >= rs /\ p < k /\ D(t, p) = D(t, k) /\ t[p] \notin Closers
PrePos(t, p) == t[p] \in {"add", "sub"} /\ (p = 1 \/ t[p-1] \in BinOps \/ t[p-1] \in Openers \/ t[p-1] = "comma")
BinPos(t, p) == t[p] \in BinOps /\ ~PrePos(t, p)
RbpAt(t, p) == IF PrePos(t, p) THEN LvlNeg ELSE Prec(t[p])
IsOp(t, p) == BinPos(t, p) \/ t[p] \in Postfix
AStart(t, k) ==
  IF t[k] = "num" THEN k
  ELSE IF t[k] \in Closers THEN
       LET o == SetMax({p \in 1..(k-1) : t[p] \in Openers /\ D(t, p) = D(t, k) - 1}) IN
       IF o > 1 /\ t[o-1] \in Funs THEN o - 1 ELSE o
  ELSE \* "!": the factorial with its operand as C04 groups it
       LET rs == RegionStart(t, k)
           caps == {b \in rs..(k-1) : SameLevel(t, rs, k, b) /\ (BinPos(t, b) \/ PrePos(t, b))
                       /\ \A c \in (b+1)..(k-1) : (SameLevel(t, rs, k, c) /\ IsOp(t, c)) => Prec(t[c]) > RbpAt(t, b)}
       IN IF caps = {} THEN rs ELSE SetMax(caps) + 1
REnd(t, k) ==
  LET stops == {p \in (k+2)..Len(t) : Depth(t, k + 1, p) = 0 /\
                   (t[p] \in Closers \/ t[p] = "comma" \/ t[p] \in {"deg", "rad"} \/ (BinPos(t, p) /\ Prec(t[p]) <= LvlMul))}
  IN IF stops = {} THEN Len(t) ELSE SetMin(stops) - 1
\* result: the rewritten sequence and, for each new position, the original position it came from (0 = inserted)
Explicit1(t) ==
  LET k == SetMin(Sites(t)) a == AStart(t, k) e == REnd(t, k) IN
  SubSeq(t, 1, a - 1) \o <<"lp">> \o SubSeq(t, a, k) \o <<"mul", "lp">> \o SubSeq(t, k + 1, e) \o <<"rp", "rp">> \o SubSeq(t, e + 1, Len(t))
Origin1(t, o) ==
  LET k == SetMin(Sites(t)) a == AStart(t, k) e == REnd(t, k) IN
  SubSeq(o, 1, a - 1) \o <<0>> \o SubSeq(o, a, k) \o <<0, 0>> \o SubSeq(o, k + 1, e) \o <<0, 0>> \o SubSeq(o, e + 1, Len(o))
RECURSIVE Explicit(_), ExplicitOrigin(_, _)
Explicit(t) == IF Sites(t) = {} THEN t ELSE Explicit(Explicit1(t))
ExplicitOrigin(t, o) == IF Sites(t) = {} THEN o ELSE ExplicitOrigin(Explicit1(t), Origin1(t, o))

(***************************************************************************)
(* Erasures used to compare trees modulo what a rewrite is allowed to      *)
(* change (positions, round-bracket groups, implicit vs explicit product). *)
(***************************************************************************)
RECURSIVE Er(_)
Er(n) ==
  CASE n[1] \in {"ans", "const", "num", "zero"} -> <<n[1]>>
    [] n[1] = "lp" -> Er(n[2])
    [] n[1] \in {"neg", "lf", "lc", "fact", "deg", "rad", "psup"} -> <<n[1], Er(n[2])>>
    [] n[1] \in Funs -> <<n[1], [i \in 1..Len(n[3]) |-> Er(n[3][i])]>>
    [] n[1] = "imul" -> <<"mul", Er(n[2]), Er(n[3])>>
    [] OTHER -> <<n[1], Er(n[2]), Er(n[3])>>

\* additionally reads a superscript run as ^ literal
RECURSIVE Er2(_)
Er2(n) ==
  CASE n[1] \in {"ans", "const", "num", "zero"} -> <<n[1]>>
    [] n[1] = "lp" -> Er2(n[2])
    [] n[1] = "psup" -> <<"pow", Er2(n[2]), <<"num">>>>
    [] n[1] \in {"neg", "lf", "lc", "fact", "deg", "rad"} -> <<n[1], Er2(n[2])>>
    [] n[1] \in Funs -> <<n[1], [i \in 1..Len(n[3]) |-> Er2(n[3][i])]>>
    [] n[1] = "imul" -> <<"mul", Er2(n[2]), Er2(n[3])>>
    [] OTHER -> <<n[1], Er2(n[2]), Er2(n[3])>>

(***************************************************************************)
(* C13 - rewrites with their side conditions.                              *)
(***************************************************************************)
\* superscript run <-> ^N : N followed by a binary operator, deg, rad, closing bracket, comma or end of
\* input, and not adjacent to another superscript run
FollowOK(t, k) == k = Len(t) \/ t[k+1] \in Closers \/ t[k+1] = "comma" \/ t[k+1] \in {"deg", "rad"} \/ t[k+1] \in BinOps
SupSites(t) == {k \in 1..Len(t) : t[k] = "sup" /\ FollowOK(t, k) /\ (k = 1 \/ t[k-1] # "sup")}
SupAll(t) == {k \in 1..Len(t) : t[k] = "sup"}
SupToPow(t, k) == SubSeq(t, 1, k - 1) \o <<"pow", "num">> \o SubSeq(t, k + 1, Len(t))

\* prefix + before an operand
WPos(t) == {p \in 1..Len(t) : (p = 1 \/ t[p-1] \in BinOps \/ t[p-1] \in Openers \/ t[p-1] = "comma")
                              /\ t[p] \notin Closers /\ t[p] # "comma"}
InsPlus(t, p) == SubSeq(t, 1, p - 1) \o <<"add">> \o SubSeq(t, p, Len(t))

\* a redundant pair of round brackets around a complete subexpression: the token span of every
\* node of the tree, recomputed from the tree and the tokens (prefix + signs leave no node, so the
\* span of a node starts after them)
RECURSIVE SkipPlus(_, _)
SkipPlus(t, q) == IF q >= 1 /\ t[q] = "add" THEN SkipPlus(t, q - 1) ELSE q
RECURSIVE SpanLo(_, _), SpanHi(_, _), SubNodes(_)
SpanLo(t, n) ==
  CASE n[1] \in {"num", "ans", "const", "zero"} -> n[2]
    [] n[1] \in Funs -> n[2]
    [] n[1] \in {"neg", "lp", "lf", "lc"} -> SkipPlus(t, SpanLo(t, n[2]) - 1)
    [] OTHER -> SpanLo(t, n[2])          \* postfix, binary, implicit product: starts where the left operand starts
SpanHi(t, n) ==
  CASE n[1] \in {"num", "ans", "const"} -> n[2]
    [] n[1] = "zero" -> n[2] + 2
    [] n[1] \in Funs -> SpanHi(t, n[3][Len(n[3])]) + 1
    [] n[1] = "neg" -> SpanHi(t, n[2])
    [] n[1] \in {"lp", "lf", "lc", "fact", "deg", "rad"} -> SpanHi(t, n[2]) + 1
    [] n[1] = "psup" -> n[3]
    [] OTHER -> SpanHi(t, n[3])
SubNodes(n) ==
  CASE n[1] \in {"num", "ans", "const", "zero"} -> {n}
    [] n[1] \in Funs -> {n} \cup UNION {SubNodes(n[3][i]) : i \in 1..Len(n[3])}
    [] n[1] \in {"neg", "lp", "lf", "lc", "fact", "deg", "rad", "psup"} -> {n} \cup SubNodes(n[2])
    [] OTHER -> {n} \cup SubNodes(n[2]) \cup SubNodes(n[3])
WrapSites(t, root) == {<<SpanLo(t, n), SpanHi(t, n)>> : n \in SubNodes(root)}
Wrap(t, i, j) == SubSeq(t, 1, i - 1) \o <<"lp">> \o SubSeq(t, i, j) \o <<"rp">> \o SubSeq(t, j + 1, Len(t))

(***************************************************************************)
(* C20 - substitution: C[(E)] parses to C[@] with the hole replaced.       *)
(***************************************************************************)
Plug(t, p, E) == SubSeq(t, 1, p - 1) \o <<"lp">> \o E \o <<"rp">> \o SubSeq(t, p + 1, Len(t))
RECURSIVE ErSub(_, _, _)
ErSub(n, p, X) ==
  CASE n[1] = "ans" -> IF n[2] = p THEN X ELSE <<"ans">>
    [] n[1] \in {"const", "num", "zero"} -> <<n[1]>>
    [] n[1] = "lp" -> ErSub(n[2], p, X)
    [] n[1] \in {"neg", "lf", "lc", "fact", "deg", "rad", "psup"} -> <<n[1], ErSub(n[2], p, X)>>
    [] n[1] \in Funs -> <<n[1], [i \in 1..Len(n[3]) |-> ErSub(n[3][i], p, X)]>>
    [] n[1] = "imul" -> <<"mul", ErSub(n[2], p, X), ErSub(n[3], p, X)>>
    [] OTHER -> <<n[1], ErSub(n[2], p, X), ErSub(n[3], p, X)>>
=============================================================================
