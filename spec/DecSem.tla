------------------------------- MODULE DecSem -------------------------------
(***************************************************************************)
(* eval_decimal's arithmetic (C07) on a toy decimal format: coefficient of *)
(* at most P digits, at most S fractional digits (rust_decimal: 96 bits,   *)
(* 28).  A value is [c, s] = c / 10^s.                                     *)
(*                                                                         *)
(* A result is [k, n, s, d]:                                               *)
(*    k = "ok"     exactly n / 10^s                                        *)
(*    k = "quot"   the quotient n / d, whose expansion does not terminate  *)
(*                 within S places (specified within 10^-(S-1) max(1,|q|)) *)
(*    k = "err"    the evaluator must return Err (zero divisor, outside    *)
(*                 the range of the format)                                *)
(*    k = "unspec" in range but not representable: the statement is silent*)
(*                 (the implementation rounds)                             *)
(*                                                                         *)
(* The operational definitions (align scales, normalise, classify) are     *)
(* checked against the declarative statement of the property: "exactly the *)
(* rational result whenever it is representable".                          *)
(***************************************************************************)
EXTENDS Integers, Sequences, FiniteSets, TLC
CONSTANTS P, S

MaxC == 10^P - 1
DAbs(x) == IF x < 0 THEN -x ELSE x
DSgn(x) == IF x > 0 THEN 1 ELSE IF x < 0 THEN -1 ELSE 0
DMax(a, b) == IF a > b THEN a ELSE b
TDivD(a, b) == DSgn(a) * DSgn(b) * (DAbs(a) \div DAbs(b))
TRemD(a, b) == a - b * TDivD(a, b)

DVals == {[c |-> c, s |-> s] : c \in (-MaxC)..MaxC, s \in 0..S}

DOk(n, s) == [k |-> "ok", n |-> n, s |-> s, d |-> 1]
DErr == [k |-> "err", n |-> 0, s |-> 0, d |-> 1]
DUnspec == [k |-> "unspec", n |-> 0, s |-> 0, d |-> 1]
DQuot(n, d) == [k |-> "quot", n |-> n, s |-> 0, d |-> d]

\* minimal-scale form of n / 10^s
RECURSIVE Norm(_, _)
Norm(n, s) == IF s > 0 /\ n % 10 = 0 THEN Norm(n \div 10, s - 1) ELSE <<n, s>>

\* an exact result n / 10^s against the format
Classify(n, s) ==
  LET m == Norm(n, s) cm == m[1] sm == m[2] lim == MaxC * 10^sm IN
  IF DAbs(cm) > lim
  THEN (IF 2 * (DAbs(cm) - lim) < 10^sm THEN DUnspec ELSE DErr)     \* within half a unit above the maximum: rounds back into range
  ELSE IF sm > S THEN DUnspec
  ELSE IF DAbs(cm) > MaxC THEN DUnspec
  ELSE DOk(cm, sm)

DAdd(a, b) == LET m == DMax(a.s, b.s) IN Classify(a.c * 10^(m - a.s) + b.c * 10^(m - b.s), m)
DSub(a, b) == LET m == DMax(a.s, b.s) IN Classify(a.c * 10^(m - a.s) - b.c * 10^(m - b.s), m)
DMul(a, b) == Classify(a.c * b.c, a.s + b.s)
DNeg(a)    == DOk(Norm(-a.c, a.s)[1], Norm(-a.c, a.s)[2])
\* a / b = (a.c 10^b.s) / (b.c 10^a.s): exact when the expansion terminates within S places
RECURSIVE Terminates(_, _, _)
Terminates(n, d, k) == IF k > S THEN -1 ELSE IF (n * 10^k) % d = 0 THEN k ELSE Terminates(n, d, k + 1)
DDiv(a, b) ==
  IF b.c = 0 THEN DErr
  ELSE LET n == a.c * 10^b.s * DSgn(b.c) d == DAbs(b.c) * 10^a.s k == Terminates(n, d, 0) IN
       IF k >= 0 THEN Classify((n * 10^k) \div d, k)
       ELSE IF DAbs(n) > MaxC * d THEN DErr ELSE DQuot(n, d)
DMod(a, b) ==
  IF b.c = 0 THEN DErr
  ELSE LET m == DMax(a.s, b.s) IN Classify(TRemD(a.c * 10^(m - a.s), b.c * 10^(m - b.s)), m)

DBinOps == {"add", "sub", "mul", "div", "mod"}
DBin(op, a, b) == CASE op = "add" -> DAdd(a, b) [] op = "sub" -> DSub(a, b) [] op = "mul" -> DMul(a, b)
                    [] op = "div" -> DDiv(a, b) [] op = "mod" -> DMod(a, b)

(***************************************************************************)
(* The statement of C07, declaratively.  The exact rational result of      *)
(* + - * is num / 10^sc with:                                              *)
(***************************************************************************)
ExactNum(op, a, b) == CASE op = "add" -> a.c * 10^(DMax(a.s, b.s) - a.s) + b.c * 10^(DMax(a.s, b.s) - b.s)
                        [] op = "sub" -> a.c * 10^(DMax(a.s, b.s) - a.s) - b.c * 10^(DMax(a.s, b.s) - b.s)
                        [] op = "mul" -> a.c * b.c
ExactSc(op, a, b) == IF op = "mul" THEN a.s + b.s ELSE DMax(a.s, b.s)
\* n / 10^sc is representable: some coefficient of at most P digits at some scale <= S equals it
Representable(n, sc) == \E s \in 0..S : (DAbs(n) * 10^s) % 10^sc = 0 /\ (DAbs(n) * 10^s) \div 10^sc <= MaxC

C07Arith(op, a, b) ==
  op \in {"add", "sub", "mul"} =>
    LET r == DBin(op, a, b) n == ExactNum(op, a, b) sc == ExactSc(op, a, b) IN
    /\ Representable(n, sc) <=> r.k = "ok"                                   \* exact whenever representable - and only then
    /\ r.k = "ok" => (r.n * 10^sc = n * 10^r.s /\ DAbs(r.n) <= MaxC /\ r.s <= S)
    /\ r.k = "err" => DAbs(n) > MaxC * 10^sc                                   \* Err only outside the range
    /\ DAbs(n) >= (MaxC + 1) * 10^sc => r.k = "err"                            \* and always beyond it
    /\ r.k # "quot"
C07DivMod(op, a, b) ==
  op \in {"div", "mod"} =>
    LET r == DBin(op, a, b) IN
    /\ b.c = 0 <=> (r.k = "err" /\ b.c = 0)
    /\ b.c = 0 => r.k = "err"
    /\ (op = "div" /\ r.k = "ok") => r.n * b.c * 10^a.s = a.c * 10^b.s * 10^r.s          \* the quotient, exactly
    /\ (op = "div" /\ r.k = "quot") => (r.n * b.c * 10^a.s * DSgn(b.c) = a.c * 10^b.s * r.d * DSgn(b.c) /\ r.d > 0)
    /\ (op = "mod" /\ b.c # 0) =>
          /\ r.k = "ok"                                                                   \* a remainder is always representable
          /\ LET m == DMax(a.s, b.s) pa == a.c * 10^(m - a.s) pb == b.c * 10^(m - b.s) rr == r.n * 10^(m - r.s) IN
             /\ r.s <= m
             /\ DAbs(rr) < DAbs(pb) /\ (rr = 0 \/ DSgn(rr) = DSgn(pa))                    \* sign of the dividend
             /\ (pa - rr) % DAbs(pb) = 0
\* the examples of the statement (at P >= 3, S >= 2):  0.1 + 0.2 = 0.3 exactly,  1.10 * 3 = 3.3 exactly
C07Examples == (P >= 3 /\ S >= 2) =>
                  /\ DAdd([c |-> 1, s |-> 1], [c |-> 2, s |-> 1]) = DOk(3, 1)
                  /\ DMul([c |-> 110, s |-> 2], [c |-> 3, s |-> 0]) = DOk(33, 1)
=============================================================================
