------------------------------- MODULE NumSem -------------------------------
(***************************************************************************)
(* eval_number at word size W (C09): Integer stays exact; the result is    *)
(* Float only when it must be.  Floats are modelled by exact rationals     *)
(* (reduced pairs) plus NaN and the infinities: on the small operands of   *)
(* the model every double operation involved is either exact or the        *)
(* correctly rounded value of that rational, which is what the conformance *)
(* vectors compare.                                                        *)
(*                                                                         *)
(*   NI(v)        Integer(v)                                               *)
(*   NF(n, d)     Float(n/d), d > 0, gcd(n,d) = 1                          *)
(*   NNaN, NInf(s)                                                         *)
(***************************************************************************)
EXTENDS IntSem

NI(v) == [t |-> "I", n |-> v, d |-> 1]
RECURSIVE Gcd(_, _)
Gcd(a, b) == IF b = 0 THEN a ELSE Gcd(b, a % b)
NF(n, d) == LET g == Gcd(IAbs(n), d) IN IF g = 0 THEN [t |-> "F", n |-> 0, d |-> 1] ELSE [t |-> "F", n |-> n \div g, d |-> d \div g]
NNaN == [t |-> "NaN", n |-> 0, d |-> 1]
NInf(s) == [t |-> "Inf", n |-> s, d |-> 1]

\* the double value of an Integer
AsF(x) == NF(x.n, x.d)

\* Integer op Integer (the dispatch table of C09)
NBinII(op, a, b) ==
  CASE op = "add" -> IF InR(a + b) THEN NI(a + b) ELSE NF(a + b, 1)
    [] op = "sub" -> IF InR(a - b) THEN NI(a - b) ELSE NF(a - b, 1)
    [] op = "mul" -> IF InR(a * b) THEN NI(a * b) ELSE NF(a * b, 1)
    [] op = "div" -> IF b = 0 THEN (IF a = 0 THEN NNaN ELSE NInf(ISgn(a)))
                     ELSE IF ITRem(a, b) = 0 /\ InR(ITDiv(a, b)) THEN NI(ITDiv(a, b))
                     ELSE IF b > 0 THEN NF(a, b) ELSE NF(-a, -b)
    [] op = "mod" -> IF b = 0 THEN NNaN ELSE NI(ITRem(a, b))
    [] op = "pow" -> IF b < 0 \/ b > MaxExp THEN [t |-> "unspec", n |-> 0, d |-> 1]
                     ELSE LET r == PowI(a, b) IN
                          IF r.k = "ok" THEN NI(r.v) ELSE [t |-> "Fpow", n |-> a, d |-> b]    \* Float(a^b), too large for the model's integers

NUnI(op, a) ==
  CASE op = "neg" -> IF InR(-a) THEN NI(-a) ELSE NF(-a, 1)
    [] op = "abs" -> IF InR(IAbs(a)) THEN NI(IAbs(a)) ELSE NF(IAbs(a), 1)
    [] op = "sgn" -> NI(ISgn(a))
    [] op \in {"floor", "ceil", "round", "trunc"} -> NI(a)
    [] op = "fact" -> IF a < 0 THEN [t |-> "unspec", n |-> 0, d |-> 1]
                      ELSE LET r == FactChk(a) IN IF r.k = "ok" THEN NI(r.v) ELSE [t |-> "Ffact", n |-> a, d |-> 1]

\* rounding functions on a Float n/d: the correctly rounded integer (numeric value; the variant is not fixed by C09)
RFloor(n, d) == FloorDiv(n, d)
RCeil(n, d)  == -FloorDiv(-n, d)
RTrunc(n, d) == ITDiv(n, d)
RRound(n, d) == IF n >= 0 THEN FloorDiv(2 * n + d, 2 * d) ELSE -FloorDiv(2 * (-n) + d, 2 * d)    \* half away from zero

\* IntegerWhenFits: an Integer result is exactly the mathematical one, and Float appears only when the exact result does not fit,
\* the division is inexact or by zero
IntegerWhenFits(op, a, b) ==
  LET r == NBinII(op, a, b) IN
  /\ op = "add" => (r.t = "I" <=> InR(a + b)) /\ (r.t = "I" => r.n = a + b) /\ (r.t = "F" => r.n = a + b)
  /\ op = "mul" => (r.t = "I" <=> InR(a * b)) /\ (r.t \in {"I", "F"} /\ r.n = a * b)
  /\ op = "div" => /\ (r.t = "I" => (b # 0 /\ r.n * b = a))
                   /\ ((b # 0 /\ ITRem(a, b) = 0 /\ InR(ITDiv(a, b))) => r.t = "I")
                   /\ (r.t = "F" => r.n * b = a * r.d)
                   /\ (b = 0 => r.t \in {"NaN", "Inf"})
  /\ op = "mod" => (b # 0 => r = NI(ITRem(a, b))) /\ (b = 0 => r = NNaN)
  /\ op = "pow" => ((b >= 0 /\ b <= MaxExp /\ PowI(a, b).k = "ok") => r = NI(PowI(a, b).v))
RoundingCorrect(n, d) ==
  /\ RFloor(n, d) * d <= n /\ n < (RFloor(n, d) + 1) * d
  /\ (RCeil(n, d) - 1) * d < n /\ n <= RCeil(n, d) * d
  /\ IAbs(RTrunc(n, d)) * d <= IAbs(n) /\ IAbs(n) < (IAbs(RTrunc(n, d)) + 1) * d
  /\ 2 * IAbs(RRound(n, d) * d - n) <= d
  /\ (2 * IAbs(RRound(n, d) * d - n) = d => IAbs(RRound(n, d)) * d > IAbs(n))      \* ties away from zero
=============================================================================
