----------------------------- MODULE NumberConv -----------------------------
(***************************************************************************)
(* C18: Number::from(f64) and Number::from(i64), on a toy binary floating- *)
(* point format (EB exponent bits, MB mantissa bits) and W-bit integers,   *)
(* for ALL bit patterns.  The proportions are those of f64 / i64: the      *)
(* float has fewer significant bits than the integer (MB + 1 < W - 1), so  *)
(* MaxI is not representable and rounds up to 2^(W-1) - which is how an    *)
(* inclusive range test lets 2^(W-1) through (negative control).           *)
(***************************************************************************)
EXTENDS Integers, Sequences, FiniteSets, TLC
CONSTANTS EB, MB, W

Bias == 2^(EB-1) - 1
EMax == 2^EB - 1
MinI == -(2^(W-1))
MaxI == 2^(W-1) - 1

\* a bit pattern
Patterns == [s : {0, 1}, e : 0..EMax, m : 0..(2^MB - 1)]
IsNaN(p) == p.e = EMax /\ p.m # 0
IsInf(p) == p.e = EMax /\ p.m = 0
Finite(p) == p.e # EMax
\* value of a finite pattern as a rational num / 2^den2 (den2 >= 0), sign applied to num
Sig(p) == IF p.e = 0 THEN p.m ELSE 2^MB + p.m
Exp2(p) == (IF p.e = 0 THEN 1 ELSE p.e) - Bias - MB          \* value = Sig * 2^Exp2
Sgn(p) == IF p.s = 1 THEN -1 ELSE 1
\* integral iff the significand has at least -Exp2 trailing zero bits (or Exp2 >= 0)
Integral(p) == Exp2(p) >= 0 \/ Sig(p) % (2^(-Exp2(p))) = 0
IntVal(p) == IF Exp2(p) >= 0 THEN Sgn(p) * Sig(p) * 2^Exp2(p) ELSE Sgn(p) * (Sig(p) \div 2^(-Exp2(p)))
InRange(p) == Integral(p) /\ MinI <= IntVal(p) /\ IntVal(p) <= MaxI

\* the specified conversion
FromF(p) == IF Finite(p) /\ Integral(p) /\ InRange(p) THEN [t |-> "Integer", n |-> IntVal(p)] ELSE [t |-> "Float", p |-> p]
FromI(n) == [t |-> "Integer", n |-> n]

\* C18 as properties of FromF
Lossless(p) == FromF(p).t = "Integer" => (Finite(p) /\ Integral(p) /\ FromF(p).n = IntVal(p) /\ MinI <= FromF(p).n /\ FromF(p).n <= MaxI)
Canonical(p) == (Finite(p) /\ Integral(p) /\ MinI <= IntVal(p) /\ IntVal(p) <= MaxI) => FromF(p).t = "Integer"
BitsKept(p) == FromF(p).t = "Float" => FromF(p).p = p
NaNStaysNaN(p) == IsNaN(p) => (FromF(p).t = "Float" /\ IsNaN(FromF(p).p))

\* what the pinned code did: `floor(v) <= (MaxI as float)` with MaxI rounded to the float format (= 2^(W-1)),
\* then a saturating cast
MaxIAsFloat == 2^(W-1)
PinnedFromF(p) == IF Finite(p) /\ Integral(p) /\ MinI <= IntVal(p) /\ IntVal(p) <= MaxIAsFloat
                  THEN [t |-> "Integer", n |-> IF IntVal(p) > MaxI THEN MaxI ELSE IntVal(p)] ELSE [t |-> "Float", p |-> p]
PinnedLossless(p) == PinnedFromF(p).t = "Integer" => PinnedFromF(p).n = IntVal(p)        \* negative control: violated at 2^(W-1)

ASSUME MB + 1 < W - 1        \* the proportions of f64 (53 bits) and i64 (63 bits)
VARIABLE pat
Init == pat \in Patterns
Next == UNCHANGED pat
C18 == Lossless(pat) /\ Canonical(pat) /\ BitsKept(pat) /\ NaNStaysNaN(pat)
C18Pinned == PinnedLossless(pat)
=============================================================================
