CONSTANTS N = 4
E = "f64"
EmitOn = TRUE
INIT Init
NEXT Next
CHECK_DEADLOCK FALSE
INVARIANT Agree OkMeansAllConsumed TreeOK JuxOK NoJuxAfter NoJuxBefore SupOK PlusOK WrapOK SubstOK
INVARIANT SignTighterThanPow SignLooserThanBang PowRightAbsorbsOnlyBang PowLeftAssoc JuxExamples Emit
