------------------------------- MODULE MCAgg -------------------------------
EXTENDS Aggregates, Json
CONSTANTS MaxLen, EmitOn
Pool == {-7, -2, 0, 3, 12, 18}     \* negatives, zero, duplicates (by repetition), a pair with a common divisor
VARIABLE args
Init == args = <<>>
Next == Len(args) < MaxLen /\ \E x \in Pool \cup {ErrArg} : args' = Append(args, x)

Fns == {"Min", "Max", "Avg", "Med", "Gcd", "Lcm"}
C11FoldsAgree == FoldsAgree(args)
\* independent of the order in which the arguments are written: every transposition of neighbours leaves every aggregate unchanged
Swap(s, i) == [j \in 1..Len(s) |-> IF j = i THEN s[i + 1] ELSE IF j = i + 1 THEN s[i] ELSE s[j]]
C11OrderIndependent == \A i \in 1..(Len(args) - 1) : \A f \in Fns :
                          (f = "Lcm" /\ ~HasErr(args) /\ DProd(args) > 3000) \/ AggResult(f, Swap(args, i)) = AggResult(f, args)
\* negative control: a fold that starts from the type's minimum is not the minimum (expected: violated)
MinFromTypeMinimum == (args # <<>> /\ ~HasErr(args)) => BadMinFold(args) = DMin(args)
Emit == EmitOn => PrintT(<<"BEH", ToJson([kind |-> "agg", args |-> args,
            r |-> [f \in {g \in Fns : g # "Lcm" \/ HasErr(args) \/ args = <<>> \/ DProd(args) <= 3000} |-> AggResult(f, args)]])>>)
=============================================================================
