--------------------------- MODULE MCParserTrace ---------------------------
(* configuration of ParserTrace: the environment may supply any token kind of any evaluator (the log decides which) *)
EXTENDS ParserTrace
PTKinds == AllKinds \cup {"bad"}
=============================================================================
