-------------------------- MODULE MCParserMachine --------------------------
(* Model-checking configuration of ParserMachine for one evaluator: the environment supplies any token kind of the        *)
(* evaluator (or the foreign token) on demand, at most MN of them.                                                          *)
EXTENDS ParserMachine
CONSTANT E
MCKinds == Kinds(E) \cup {"bad"}
=============================================================================
