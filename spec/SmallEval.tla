----------------------------- MODULE SmallEval -----------------------------
(***************************************************************************)
(* Evaluation of the specification's trees on the fragment TLC can compute *)
(* exactly: small integers.  On this fragment the five evaluators have     *)
(* one meaning (with the documented differences for / % avg med and the    *)
(* bitwise operators of eval_i64), so the specification itself decides the *)
(* value of a recorded call, without the reference interpreter.            *)
(*                                                                         *)
(* A result is [k, v]:  k = "val" (the call must return Ok(v)),            *)
(*                      k = "err" (the call must return Err),              *)
(*                      k = "na"  (outside the fragment; nothing asserted) *)
(***************************************************************************)
EXTENDS Lexer, Integers, Bitwise

Lim == 16777216          \* 2^24: every intermediate value stays below it (exact in doubles, far from i64 overflow)

Val(v) == IF v > -Lim /\ v < Lim THEN [k |-> "val", v |-> v] ELSE [k |-> "na", v |-> 0]
NA  == [k |-> "na", v |-> 0]
ERR == [k |-> "err", v |-> 0]

AbsI(x) == IF x < 0 THEN -x ELSE x
SgnI(x) == IF x > 0 THEN 1 ELSE IF x < 0 THEN -1 ELSE 0
TDiv(a, b) == SgnI(a) * SgnI(b) * (AbsI(a) \div AbsI(b))
TRem(a, b) == a - b * TDiv(a, b)

\* TLC integers are 32-bit: never form a product that could leave them
MulS(a, b) == IF a = 0 \/ b = 0 THEN Val(0) ELSE IF AbsI(a) > Lim \div AbsI(b) THEN NA ELSE Val(a * b)
RECURSIVE PowS(_, _)
PowS(a, n) == IF n = 0 THEN Val(1) ELSE LET r == PowS(a, n - 1) IN IF r.k = "val" THEN MulS(r.v, a) ELSE r
RECURSIVE FactS(_)
FactS(n) == IF n <= 1 THEN 1 ELSE n * FactS(n - 1)
RECURSIVE GcdN(_, _)
GcdN(a, b) == IF b = 0 THEN a ELSE GcdN(b, a % b)

\* text of a literal without a point, at most 7 digits
RECURSIVE DigitsVal(_)
DigitsVal(d) == IF d = <<>> THEN 0 ELSE 10 * DigitsVal(SubSeq(d, 1, Len(d) - 1)) + DigitVal(d[Len(d)])
LitVal(t) == IF HasPointIn(t.txt) \/ t.im \/ Len(StripZeros(t.txt)) > 7 THEN NA ELSE Val(DigitsVal(t.txt))

\* two's-complement image for the bitwise operators (eval_i64): only non-negative operands are in the fragment
BitAnd(a, b) == IF a >= 0 /\ b >= 0 THEN Val(a & b) ELSE NA
BitOr(a, b)  == IF a >= 0 /\ b >= 0 THEN Val(a | b) ELSE NA

Bin(e, op, a, b) ==
  CASE op = "add" -> Val(a + b)
    [] op = "sub" -> Val(a - b)
    [] op \in {"mul", "imul"} -> MulS(a, b)
    [] op = "div" -> IF e = "cpx" THEN NA ELSE IF b = 0 THEN (IF e \in {"i64", "dec"} THEN ERR ELSE NA)
                     ELSE IF e = "i64" THEN Val(TDiv(a, b))
                     ELSE IF TRem(a, b) = 0 THEN Val(TDiv(a, b)) ELSE NA
    [] op = "mod" -> IF b = 0 THEN (IF e \in {"i64", "dec"} THEN ERR ELSE NA) ELSE Val(TRem(a, b))
    [] op = "pow" -> IF e = "cpx" \/ b < 0 \/ b > 24 THEN NA ELSE PowS(a, b)     \* complex ^ goes through exp/ln
    [] op = "and" -> BitAnd(a, b)
    [] op = "or"  -> BitOr(a, b)
    [] op = "shl" -> IF b < 0 \/ b > 63 THEN ERR ELSE IF b > 24 THEN NA ELSE MulS(a, 2^b)
    [] op = "shr" -> IF b < 0 \/ b > 63 THEN ERR ELSE IF b > 24 THEN (IF a >= 0 THEN Val(0) ELSE Val(-1))
                     ELSE Val(IF a >= 0 THEN a \div 2^b ELSE -(((-a) + 2^b - 1) \div 2^b))
    [] OTHER -> NA

\* sorted copy of a sequence of integers
RECURSIVE InsertSorted(_, _), SortInts(_)
InsertSorted(s, x) == IF s = <<>> THEN <<x>> ELSE IF x <= s[1] THEN <<x>> \o s ELSE <<s[1]>> \o InsertSorted(Tail(s), x)
SortInts(s) == IF s = <<>> THEN <<>> ELSE InsertSorted(SortInts(Tail(s)), s[1])
RECURSIVE SumSeq(_)
SumSeq(s) == IF s = <<>> THEN 0 ELSE s[1] + SumSeq(Tail(s))
SeqMin(s) == CHOOSE x \in {s[i] : i \in 1..Len(s)} : \A j \in 1..Len(s) : x <= s[j]
SeqMax(s) == CHOOSE x \in {s[i] : i \in 1..Len(s)} : \A j \in 1..Len(s) : x >= s[j]
RECURSIVE GcdSeq(_), LcmSeq(_)
GcdSeq(s) == IF s = <<>> THEN 0 ELSE GcdN(AbsI(s[1]), GcdSeq(Tail(s)))
LcmSeq(s) == IF s = <<>> THEN 1
             ELSE LET r == LcmSeq(Tail(s)) a == AbsI(s[1]) IN
                  IF a = 0 \/ r = 0 THEN 0 ELSE IF r >= Lim \/ (a \div GcdN(a, r)) > Lim \div r THEN Lim ELSE (a \div GcdN(a, r)) * r

Call(e, f, a) ==      \* a: sequence of integer arguments
  LET n == Len(a) IN
  CASE e = "cpx" -> NA
    [] f = "Abs" -> Val(AbsI(a[1]))
    [] f = "Sign" -> Val(SgnI(a[1]))
    [] f \in {"Floor", "Ceil", "Round", "Truncate"} -> Val(a[1])
    [] f = "Mod" -> Bin(e, "mod", a[1], a[2])
    [] f = "Pow" -> Bin(e, "pow", a[1], a[2])
    [] f = "Min" -> Val(SeqMin(a))
    [] f = "Max" -> Val(SeqMax(a))
    [] f = "Avg" -> IF e = "i64" THEN Val(TDiv(SumSeq(a), n))
                    ELSE IF TRem(SumSeq(a), n) = 0 THEN Val(TDiv(SumSeq(a), n)) ELSE NA
    [] f = "Med" -> LET s == SortInts(a) IN
                    IF n % 2 = 1 THEN Val(s[(n + 1) \div 2])
                    ELSE LET t == s[n \div 2] + s[n \div 2 + 1] IN
                         IF e = "i64" THEN Val(TDiv(t, 2)) ELSE IF TRem(t, 2) = 0 THEN Val(TDiv(t, 2)) ELSE NA
    [] f = "Gcd" -> Val(GcdSeq(a))
    [] f = "Lcm" -> Val(LcmSeq(a))
    [] OTHER -> NA

Comb2(x, y, f(_, _)) == IF x.k = "err" \/ y.k = "err" THEN ERR
                        ELSE IF x.k = "na" \/ y.k = "na" THEN NA ELSE f(x.v, y.v)
\* ERR dominates: every subtree is evaluated, an error anywhere is an error of the call; but an "na" subtree may
\* itself be an error or a value, so a definite error is only claimed when no subtree is "na"
Comb1(x, f(_)) == IF x.k # "val" THEN x ELSE f(x.v)

RECURSIVE Ev(_, _, _, _), EvArgs(_, _, _, _)
EvArgs(e, toks, args, ph) ==
  IF args = <<>> THEN [k |-> "val", v |-> <<>>]
  ELSE LET h == Ev(e, toks, args[1], ph) t == EvArgs(e, toks, Tail(args), ph) IN
       IF h.k = "na" \/ t.k = "na" THEN [k |-> "na", v |-> <<>>]
       ELSE IF h.k = "err" \/ t.k = "err" THEN [k |-> "err", v |-> <<>>]
       ELSE [k |-> "val", v |-> <<h.v>> \o t.v]

Ev(e, toks, n, ph) ==
  CASE n[1] = "num" -> LitVal(toks[n[2]])
    [] n[1] = "ans" -> ph
    [] n[1] = "zero" -> Val(0)
    [] n[1] = "const" -> NA
    [] n[1] = "lp" -> Ev(e, toks, n[2], ph)
    [] n[1] \in {"lf", "lc"} -> Ev(e, toks, n[2], ph)          \* floor / ceil of an integer
    [] n[1] = "neg" -> Comb1(Ev(e, toks, n[2], ph), LAMBDA v : Val(-v))
    [] n[1] = "fact" -> Comb1(Ev(e, toks, n[2], ph), LAMBDA v : IF v < 0 \/ v > 10 THEN NA ELSE Val(FactS(v)))
    [] n[1] \in {"deg", "rad"} -> NA
    [] n[1] = "psup" -> LET b == Ev(e, toks, n[2], ph) x == LitVal(toks[n[3]]) IN
                        IF b.k = "na" \/ x.k = "na" THEN NA ELSE IF b.k = "err" THEN ERR ELSE Bin(e, "pow", b.v, x.v)
    [] n[1] \in Funs -> LET a == EvArgs(e, toks, n[3], ph) IN
                        IF a.k = "na" THEN NA ELSE IF a.k = "err" THEN ERR ELSE Call(e, toks[n[2]].fn, a.v)
    [] OTHER -> LET x == Ev(e, toks, n[2], ph) y == Ev(e, toks, n[3], ph) IN
                IF x.k = "na" \/ y.k = "na" THEN NA
                ELSE IF x.k = "err" \/ y.k = "err" THEN ERR
                ELSE Bin(e, n[1], x.v, y.v)
=============================================================================
