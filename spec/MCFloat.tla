------------------------------- MODULE MCFloat -------------------------------
EXTENDS FloatSem, Json
VARIABLES op, a, b
Init == op \in Ops /\ a \in Classes /\ b \in Classes
Next == UNCHANGED <<op, a, b>>
Total == Apply(op, a, b) # {}
Emit == PrintT(<<"BEH", ToJson([kind |-> "fclass", op |-> op, a |-> a, b |-> b, r |-> Apply(op, a, b)])>>)
=============================================================================
