------------------------------- MODULE MCSem -------------------------------
(***************************************************************************)
(* Exhaustive check of the integer / number semantics at a small word size *)
(* and emission of the conformance vectors that tie the harness's          *)
(* reference interpreter (instantiated at the same W) to these definitions.*)
(***************************************************************************)
EXTENDS NumSem, Json
CONSTANTS EmitOn
VARIABLES kind, op, a, b

Init == \/ kind = "ibin" /\ op \in IBinOps /\ a \in IVals /\ b \in IVals
        \/ kind = "iun" /\ op \in IUnOps /\ a \in IVals /\ b = 0
        \/ kind = "nbin" /\ op \in {"add", "sub", "mul", "div", "mod", "pow"} /\ a \in IVals /\ b \in IVals
        \/ kind = "nun" /\ op \in {"neg", "abs", "sgn", "fact", "floor"} /\ a \in IVals /\ b = 0
        \/ kind = "round" /\ op = "round" /\ a \in IVals /\ b \in 1..8        \* the Float a/b
Next == UNCHANGED <<kind, op, a, b>>

C06Exact == /\ kind = "ibin" => ExactBin(op, a, b)
            /\ kind = "iun" => ExactUn(op, a)
C09IntegerWhenFits == kind = "nbin" => IntegerWhenFits(op, a, b)
C09Rounding == kind = "round" => RoundingCorrect(a, b)
\* C15, first clause: on integer expressions eval_number returns Integer(v) whenever eval_i64 returns Ok(v) - every division exact
C15IntNum == /\ (kind = "ibin" /\ op \in {"add", "sub", "mul", "div", "mod", "pow"}) =>
                   LET ri == IBin(op, a, b) IN
                   (ri.k = "ok" /\ (op = "div" => ITRem(a, b) = 0)) => NBinII(op, a, b) = NI(ri.v)
             /\ (kind = "iun" /\ op \in {"neg", "abs", "sgn", "fact"}) =>
                   LET ri == IUn(op, a) IN ri.k = "ok" => NUnI(op, a) = NI(ri.v)
\* negative control: the wrapping arithmetic of the pinned release build is NOT the specified one (expected: violated)
NeverWraps == kind = "ibin" => RawRelease(op, a, b) = IBin(op, a, b)

Result == CASE kind = "ibin" -> IBin(op, a, b)
            [] kind = "iun" -> IUn(op, a)
            [] kind = "nbin" -> NBinII(op, a, b)
            [] kind = "nun" -> NUnI(op, a)
            [] kind = "round" -> [floor |-> RFloor(a, b), ceil |-> RCeil(a, b), trunc |-> RTrunc(a, b), round |-> RRound(a, b)]
Emit == EmitOn => PrintT(<<"BEH", ToJson([kind |-> kind, op |-> op, a |-> a, b |-> b, w |-> W, r |-> Result])>>)
=============================================================================
