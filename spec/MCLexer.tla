------------------------------ MODULE MCLexer ------------------------------
(***************************************************************************)
(* Character level, exhaustively: every string of at most K characters     *)
(* over a configured alphabet, for one evaluator.  Checks the lexer's own  *)
(* properties in every state and (EmitOn) prints the specification's       *)
(* verdict, tokens and tree for each string: the behaviours replayed into  *)
(* the real tokenizer + parser + evaluator.                                *)
(***************************************************************************)
EXTENDS CallFn, Json
CONSTANTS K, E, Alphabet, EmitOn

VARIABLE str
\* strings grow one character at a time, so that TLC's workers share the enumeration
Init == str = <<>>
Next == Len(str) < K /\ \E c \in Alphabet : str' = Append(str, c)

Syn == Syntax(E, str)

\* every token consumes at least one character: at most Len(str) tokens (C02, lexing part)
Progress == \A i \in 1..Len(str) : LexProgress(E, SubSeq(str, i, Len(str)))
TokenCount == Len(Syn.toks) <= Len(Strip(str)) + 1
\* whitespace anywhere does not change the verdict, the tokens or the tree (C13)
WsInvariant == \A i \in 0..Len(str) :
                  LET s2 == SubSeq(str, 1, i) \o <<"WS">> \o SubSeq(str, i + 1, Len(str)) IN
                  Syntax(E, s2) = Syn
\* a function name is a token only in front of "(" (C03)
FnNeedsParen == \A i \in 1..Len(Syn.toks) : Syn.toks[i].k \in Funs =>
                   (LexOk(Syn.toks) => (i < Len(Syn.toks) /\ Syn.toks[i+1].k = "lp"))
\* only what the evaluator offers is ever a token (C03)
OnlyOffered == \A i \in 1..Len(Syn.toks) : Syn.toks[i].k = "bad" \/ Syn.toks[i].k \in Kinds(E)
\* a literal token denotes its text (C19): digits, at most one point, optional imaginary suffix only in cpx
LiteralForm == \A i \in 1..Len(Syn.toks) : Syn.toks[i].k = "num" =>
                  /\ CountOf(Syn.toks[i].txt, ".") <= 1
                  /\ \A j \in 1..Len(Syn.toks[i].txt) : Syn.toks[i].txt[j] \in Digits \cup {"."}
                  /\ (Syn.toks[i].im => E = "cpx")
                  /\ (E = "i64" => ~HasPointIn(Syn.toks[i].txt))
\* C15: the same text is the same expression in every evaluator that accepts it - same token kinds, same payload
\* (function, literal text), same tree; and on the fragment the specification can compute, the same value
\* (eval_i64's truncating / avg med are outside the fragment of the others, so "both computable" means "exact")
CommonSyntax == Syn.v = "accept" =>
                  \A e2 \in Evaluators \ {E} : LET s2 == Syntax(e2, str) IN
                     s2.v = "accept" => (s2.toks = Syn.toks /\ s2.tree = Syn.tree)
CommonValue == Syn.v = "accept" =>
                  \A e2 \in Evaluators \ {E} : \A p \in {0, 3, -7} :
                     LET s2 == Syntax(e2, str) v1 == Value(E, Syn, Val(p)) v2 == Value(e2, s2, Val(p)) IN
                     (s2.v = "accept" /\ v1.k = "val" /\ v2.k = "val") => v1 = v2
\* accepted only if everything was consumed: the characters of the tokens add up to the stripped input
Behaviour == [chars |-> str, v |-> Syn.v, rule |-> Syn.rule, toks |-> Syn.toks, tree |-> Syn.tree]
Emit == EmitOn => PrintT(<<"BEH", ToJson(Behaviour)>>)
=============================================================================
