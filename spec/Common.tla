------------------------------- MODULE Common -------------------------------
(***************************************************************************)
(* C15: the common sub-languages of the five evaluators, as data.          *)
(*                                                                         *)
(* The parser (ParseFn) does not depend on the evaluator at all: it sees   *)
(* token kinds only.  Two evaluators therefore agree on the tree of every  *)
(* token sequence over kinds and functions both offer; what remains is     *)
(* (a) that the same text lexes to the same tokens in both (MCLexer:       *)
(* CommonSyntax, checked on every short string) and (b) that the values    *)
(* agree, clause by clause of the property:                                *)
(*                                                                         *)
(*   IntLang    eval_i64 Ok(v) => eval_number Integer(v)                   *)
(*              (MCSem: C15IntNum, every operand pair at word size W)      *)
(*   FloatLang  eval_number's numeric value = eval_f64's result            *)
(*   RealLang   eval_complex on real operands ~ eval_f64                   *)
(*   DecLang    eval_decimal ~ eval_f64 on positive expressions            *)
(*                                                                         *)
(* The tables are exported with the vocabulary (ExportVocab); the harness  *)
(* has no second copy.                                                     *)
(***************************************************************************)
EXTENDS Lexer

\* integer expressions: + - * % ^ unary minus, abs, sgn, min, max, mod, n!, exact /
IntLangKinds == {"num", "ans", "add", "sub", "mul", "div", "mod", "pow", "sup", "bang", "lp", "rp", "comma", "f1", "f2", "fv"}
IntLangFns   == {"Abs", "Sign", "Min", "Max", "Mod"}

\* the shared f64 grammar of eval_number and eval_f64: everything either offers
FloatLangKinds == Kinds("num") \cap Kinds("f64")
FloatLangFns   == FnsOf("num") \cap FnsOf("f64")

\* operators and functions eval_complex shares with eval_f64 (applied directly to real operands)
RealLangKinds == Kinds("cpx") \cap Kinds("f64")
RealLangFns   == FnsOf("cpx") \cap FnsOf("f64")

\* positive expressions over + * / sqrt exp ln pow
DecLangKinds == {"num", "ans", "add", "mul", "div", "pow", "lp", "rp", "comma", "f1", "f2"}
DecLangFns   == {"Sqrt", "Exp", "Ln", "Pow"}

\* the real domain of each function eval_complex shares with eval_f64, as a named class the harness implements
\* (arguments in the order they are written: log(x,b), pow(a,b), root(n,x))
\*   all          every real x                      closed_unit  -1 <= x <= 1        open_unit  -1 < x < 1
\*   ge_one       x >= 1                            nonneg       x >= 0              pos        x > 0
\*   log          x > 0, b > 0, b # 1               pow          a > 0, or a = 0 and b > 0, or a < 0 and b an integer
\*   root         n # 0 and (x > 0, or x = 0 and n > 0)
RealDomain(f) ==
  CASE f \in {"Sin", "Cos", "Tan", "Sinh", "Cosh", "Tanh", "Atan", "Arsinh", "Abs", "Exp", "Exp2"} -> "all"
    [] f \in {"Asin", "Acos"} -> "closed_unit"
    [] f = "Artanh" -> "open_unit"
    [] f = "Arcosh" -> "ge_one"
    [] f = "Sqrt" -> "nonneg"
    [] f \in {"Ln", "Lb"} -> "pos"
    [] f = "Log" -> "log"
    [] f = "Pow" -> "pow"
    [] f = "Root" -> "root"
RealDomainTotal == \A f \in RealLangFns : RealDomain(f) \in {"all", "closed_unit", "open_unit", "ge_one", "nonneg", "pos", "log", "pow", "root"}
ASSUME RealDomainTotal

\* every sub-language really is common to the two evaluators it relates
CommonOffered ==
  /\ IntLangKinds \subseteq Kinds("i64") \cap Kinds("num") /\ IntLangFns \subseteq FnsOf("i64") \cap FnsOf("num")
  /\ DecLangKinds \subseteq Kinds("dec") \cap Kinds("f64") /\ DecLangFns \subseteq FnsOf("dec") \cap FnsOf("f64")
\* eval_number and eval_f64 have one and the same vocabulary, spelling for spelling
SameVocabulary == /\ Kinds("num") = Kinds("f64") /\ KeywordsOf("num") = KeywordsOf("f64")
                  /\ SingleChars("num") = SingleChars("f64")
                  /\ HasConst("num") = HasConst("f64") /\ HasRadWord("num") = HasRadWord("f64") /\ HasPoint("num") = HasPoint("f64")
\* a spelling means the same function in every evaluator that offers it (one table, so one meaning), and
\* every spelling of a shared function is shared (aliases do not distinguish evaluators)
AliasesShared == \A a \in Keywords : \A b \in Keywords : a.fn = b.fn => a.in = b.in

ASSUME CommonOffered
ASSUME SameVocabulary
ASSUME AliasesShared

CommonTable == [intKinds |-> IntLangKinds, intFns |-> IntLangFns, floatKinds |-> FloatLangKinds, floatFns |-> FloatLangFns,
                realKinds |-> RealLangKinds, realFns |-> RealLangFns, realDomain |-> [f \in RealLangFns |-> RealDomain(f)], decKinds |-> DecLangKinds, decFns |-> DecLangFns]
=============================================================================
