------------------------------- MODULE MCVocab -------------------------------
(* C10: the finite set of (evaluator, spelling) pairs, each with its canonical function and class, and the *)
(* constants / postfix operators per evaluator - enumerated as states so that the conformance run lists   *)
(* every pair it visited.                                                                                 *)
EXTENDS Lexer, Json
VARIABLES e, item
Items(ev) == {[kind |-> "kw", name |-> k.name, fn |-> k.fn, cls |-> k.cls] : k \in KeywordsOf(ev)}
             \cup (IF HasConst(ev) THEN {[kind |-> "const", name |-> "pi", fn |-> "PI", cls |-> "const"], [kind |-> "const", name |-> "PI_SYM", fn |-> "PI", cls |-> "const"],
                                         [kind |-> "const", name |-> "e", fn |-> "E", cls |-> "const"]} ELSE {})
             \cup {[kind |-> "postfix", name |-> k, fn |-> k, cls |-> k] : k \in {"bang", "deg", "rad"} \cap Kinds(ev)}
Init == e \in Evaluators /\ item \in Items(e)
Next == UNCHANGED <<e, item>>
\* the spelling really lexes to a token of that class carrying that function (Vocab and Lexer agree)
Spelled == item.kind = "kw" => LET r == Lex1(e, Chars(item.name) \o <<"(">>) IN r.tok.k = item.cls /\ r.tok.fn = item.fn /\ r.rest = <<"(">>
ConstSpelled == item.kind = "const" => LET s == IF item.name = "PI_SYM" THEN <<"PI_SYM">> ELSE Chars(item.name) IN
                                       LET r == Lex1(e, s) IN r.tok.k = "const" /\ ConstName(r.tok) = item.fn /\ r.rest = <<>>
\* a function name without "(" is never a function token
NeedsParen == item.kind = "kw" => Lex1(e, Chars(item.name)).tok.k \notin Funs
Emit == PrintT(<<"BEH", ToJson([kind |-> "vocab", e |-> e, item |-> item])>>)
=============================================================================
