------------------------------- MODULE Vocab -------------------------------
(***************************************************************************)
(* The five vocabularies of string_calculator as data.                     *)
(*                                                                         *)
(* Single source of truth for: which evaluator offers which token,         *)
(* keyword, alias, constant and bracket; the arity class and the           *)
(* canonical function behind each spelling; the precedence level of every  *)
(* token kind; the implicit-multiplication trigger set.                    *)
(*                                                                         *)
(* Characters are one-character strings for ASCII and abstract names for   *)
(* everything else ("PI_SYM", "LFLOOR", "SUP0".., "WS", "OTHER"); the      *)
(* harness owns the map from those names to Unicode code points.           *)
(***************************************************************************)
EXTENDS Naturals, Sequences, FiniteSets, TLC

Evaluators == {"f64", "i64", "dec", "cpx", "num"}

Chars(s) == [i \in 1..Len(s) |-> SubSeq(s, i, i)]

Digits == {"0","1","2","3","4","5","6","7","8","9"}
Sups   == {"SUP0","SUP1","SUP2","SUP3","SUP4","SUP5","SUP6","SUP7","SUP8","SUP9"}
SupDigit(c) == CASE c = "SUP0" -> "0" [] c = "SUP1" -> "1" [] c = "SUP2" -> "2" [] c = "SUP3" -> "3"
                 [] c = "SUP4" -> "4" [] c = "SUP5" -> "5" [] c = "SUP6" -> "6" [] c = "SUP7" -> "7"
                 [] c = "SUP8" -> "8" [] c = "SUP9" -> "9"

(***************************************************************************)
(* Token kinds.  A kind is what the parser looks at; the lexer attaches    *)
(* the function name / literal text as payload.                            *)
(*   f1 : function of exactly one argument      f2 : exactly two           *)
(*   fv : variadic, at least one argument       fa : variadic, may be empty*)
(***************************************************************************)
AllKinds == {"num","ans","const","add","sub","mul","div","mod","pow","sup","bang","deg","rad",
             "lp","rp","lf","rf","lc","rc","comma","f1","f2","fv","fa","or","and","shl","shr"}

Kinds(e) ==
  CASE e \in {"f64","num"} -> AllKinds \ {"or","and","shl","shr"}
    [] e = "dec" -> AllKinds \ {"or","and","shl","shr","deg","rad"}
    [] e = "i64" -> AllKinds \ {"const","deg","rad","lf","rf","lc","rc"}
    [] e = "cpx" -> AllKinds \ {"or","and","shl","shr","mod","bang","lf","rf","lc","rc","fv","fa"}

(***************************************************************************)
(* One-character tokens: char -> kind, per evaluator.                      *)
(***************************************************************************)
SingleAll == [c \in {"@","+","-","*","/","^","(",")","!",",","%","&","|",
                     "PI_SYM","LFLOOR","RFLOOR","LCEIL","RCEIL","DEG"} |->
   CASE c = "@" -> "ans" [] c = "+" -> "add" [] c = "-" -> "sub" [] c = "*" -> "mul" [] c = "/" -> "div"
     [] c = "^" -> "pow" [] c = "(" -> "lp"  [] c = ")" -> "rp"  [] c = "!" -> "bang" [] c = "," -> "comma"
     [] c = "%" -> "mod" [] c = "&" -> "and" [] c = "|" -> "or"
     [] c = "PI_SYM" -> "const" [] c = "LFLOOR" -> "lf" [] c = "RFLOOR" -> "rf"
     [] c = "LCEIL" -> "lc" [] c = "RCEIL" -> "rc" [] c = "DEG" -> "deg"]

SingleChars(e) == {c \in DOMAIN SingleAll : SingleAll[c] \in Kinds(e)}

(***************************************************************************)
(* Keywords: spellings that are recognised only when followed by "(".      *)
(* `in` is the set of evaluators that offer the spelling (README + token   *)
(* tables of the five evaluators).                                         *)
(***************************************************************************)
Trig3   == {"f64","num","cpx"}
Real3   == {"f64","num","dec"}
Real4   == {"f64","num","dec","i64"}
KW(n, f, c, s) == [name |-> n, fn |-> f, cls |-> c, in |-> s]

Keywords == {
  KW("sin","Sin","f1",Trig3),   KW("cos","Cos","f1",Trig3),   KW("tan","Tan","f1",Trig3),
  KW("sinh","Sinh","f1",Trig3), KW("cosh","Cosh","f1",Trig3), KW("tanh","Tanh","f1",Trig3),
  KW("asin","Asin","f1",Trig3), KW("acos","Acos","f1",Trig3), KW("atan","Atan","f1",Trig3),
  KW("asinh","Arsinh","f1",Trig3), KW("arsinh","Arsinh","f1",Trig3),
  KW("acosh","Arcosh","f1",Trig3), KW("arcosh","Arcosh","f1",Trig3),
  KW("atanh","Artanh","f1",Trig3), KW("artanh","Artanh","f1",Trig3),
  KW("atan2","Atan2","f2",{"f64","num"}),
  KW("abs","Abs","f1",Evaluators), KW("sqrt","Sqrt","f1",Evaluators),
  KW("exp","Exp","f1",Evaluators), KW("exp2","Exp2","f1",Evaluators),
  KW("ln","Ln","f1",Evaluators),   KW("lb","Lb","f1",Evaluators),
  KW("log","Log","f2",Evaluators), KW("pow","Pow","f2",Evaluators), KW("root","Root","f2",Evaluators),
  KW("sgn","Sign","f1",Real4), KW("sign","Sign","f1",Real4), KW("signum","Sign","f1",Real4),
  KW("mod","Mod","f2",Real4),
  KW("min","Min","fv",Real4), KW("max","Max","fv",Real4),
  KW("med","Med","fv",Real4), KW("median","Med","fv",Real4),
  KW("avg","Avg","fa",Real4),
  KW("trunc","Truncate","f1",Real3), KW("truncate","Truncate","f1",Real3),
  KW("floor","Floor","f1",Real3), KW("ceil","Ceil","f1",Real3), KW("round","Round","f1",Real3),
  KW("w","LambertW","f1",Real3), KW("lambert_w","LambertW","f1",Real3),
  KW("ilog","ILog","f2",Real3),
  KW("gcd","Gcd","fv",{"i64"}), KW("lcm","Lcm","fv",{"i64"}) }

KeywordsOf(e) == {k \in Keywords : e \in k.in}
FnsOf(e)      == {k.fn : k \in KeywordsOf(e)}
SpellingsOf(e, f) == {k.name : k \in {x \in KeywordsOf(e) : x.fn = f}}

(***************************************************************************)
(* Words recognised without a following "(".                               *)
(***************************************************************************)
HasConst(e) == e # "i64"
HasRadWord(e) == e \in Trig3
HasImagUnit(e) == e = "cpx"
HasPoint(e) == e # "i64"                    \* "." may occur in a literal
HasShift(e) == e = "i64"

(***************************************************************************)
(* Precedence levels (the derived order of OperatorCategory, all features) *)
(***************************************************************************)
LvlZero == 0  LvlOr == 1  LvlAnd == 2  LvlShift == 3  LvlAdd == 4  LvlMul == 5
LvlPow == 6   LvlNeg == 7 LvlFun == 8

Prec(k) == CASE k = "or" -> LvlOr [] k = "and" -> LvlAnd [] k \in {"shl","shr"} -> LvlShift
             [] k \in {"add","sub"} -> LvlAdd
             [] k \in {"mul","div","mod","deg","rad"} -> LvlMul
             [] k \in {"pow","sup"} -> LvlPow
             [] k \in {"bang","f1","f2","fv","fa"} -> LvlFun
             [] OTHER -> LvlZero

BinOps   == {"or","and","shl","shr","add","sub","mul","div","mod","pow"}
Openers  == {"lp","lf","lc"}
Closers  == {"rp","rf","rc"}
Postfix  == {"bang","deg","rad","sup"}
Funs     == {"f1","f2","fv","fa"}
Close(k) == CASE k = "lp" -> "rp" [] k = "lf" -> "rf" [] k = "lc" -> "rc" [] OTHER -> "none"

\* tokens that continue an operand as an implicit product
Trig(k) == k \in {"lp","lf","lc","f1","f2","fv","fa","num"}

(***************************************************************************)
(* Coherence of the tables (checked by TLC as ASSUMEs, MC_Vocab.cfg).      *)
(***************************************************************************)
StartsWith(s, pre) == Len(s) >= Len(pre) /\ SubSeq(s, 1, Len(pre)) = pre

\* "name(" of one keyword is never a proper prefix of "name'(" of another one:
\* longest-match is well defined and the order of the tokenizer's arms is irrelevant.
PrefixFree == \A e \in Evaluators : \A a, b \in KeywordsOf(e) :
                 a # b => ~StartsWith(Chars(b.name) \o <<"(">>, Chars(a.name) \o <<"(">>)

\* one spelling, one meaning
Functional == \A a, b \in Keywords : a.name = b.name => a = b

\* the class of a function does not depend on the alias used
ClassByFn == \A a, b \in Keywords : a.fn = b.fn => (a.cls = b.cls /\ a.in = b.in)

\* every keyword class is a kind of every evaluator that offers the keyword
ClassOffered == \A k \in Keywords : \A e \in k.in : k.cls \in Kinds(e)

\* README: what each evaluator offers (transcribed from README.md, independently of the table above)
ReadmeFns(e) ==
  {"Abs","Pow","Sqrt","Root","Exp","Exp2","Ln","Lb","Log"}
  \cup (IF e \in {"dec","f64","num","i64"} THEN {"Sign","Mod","Min","Max","Avg","Med"} ELSE {})
  \cup (IF e \in {"f64","num","dec"} THEN {"Truncate","Floor","Ceil","Round","LambertW","ILog"} ELSE {})
  \cup (IF e \in {"cpx","num","f64"} THEN {"Sin","Asin","Cos","Acos","Tan","Atan","Sinh","Arsinh","Cosh","Arcosh","Tanh","Artanh"} ELSE {})
  \cup (IF e \in {"f64","num"} THEN {"Atan2"} ELSE {})
  \cup (IF e = "i64" THEN {"Gcd","Lcm"} ELSE {})
ReadmeAgrees == \A e \in Evaluators : FnsOf(e) = ReadmeFns(e)

ReadmeOps(e) ==
  {"add","sub","mul","div","pow","sup"}
  \cup (IF e \in {"dec","num","f64","i64"} THEN {"mod","bang"} ELSE {})
  \cup (IF e = "i64" THEN {"shl","shr"} ELSE {})
  \cup (IF e \in {"cpx","num","f64"} THEN {"deg","rad"} ELSE {})
  \cup (IF e \in {"cpx","num","dec","f64"} THEN {"const"} ELSE {})
  \cup (IF e \in {"f64","num","dec"} THEN {"lf","rf","lc","rc"} ELSE {})
\* `&` and `|` are offered by eval_i64 (token table, and the precedence list of C04) but not listed in the README
ReadmeOpsAgree == \A e \in Evaluators :
   Kinds(e) \ ({"num","ans","lp","rp","comma"} \cup Funs) = ReadmeOps(e) \cup (IF e = "i64" THEN {"or","and"} ELSE {})

ASSUME PrefixFree
ASSUME Functional
ASSUME ClassByFn
ASSUME ClassOffered
ASSUME ReadmeAgrees
ASSUME ReadmeOpsAgree
=============================================================================
