---------------------------- MODULE ExportVocab ----------------------------
(* Serialises the tables of Vocab into work/vocab.json; the harness reads  *)
(* only that file - it has no second copy of names, classes or levels.     *)
EXTENDS Common, Json, IOUtils
Out == IOEnv.VOCAB_OUT
Table ==
  [ evaluators |-> Evaluators,
    kinds      |-> [e \in Evaluators |-> Kinds(e)],
    single     |-> [e \in Evaluators |-> [c \in SingleChars(e) |-> SingleAll[c]]],
    keywords   |-> Keywords,
    hasConst   |-> [e \in Evaluators |-> HasConst(e)],
    hasRadWord |-> [e \in Evaluators |-> HasRadWord(e)],
    hasImag    |-> [e \in Evaluators |-> HasImagUnit(e)],
    hasPoint   |-> [e \in Evaluators |-> HasPoint(e)],
    hasShift   |-> [e \in Evaluators |-> HasShift(e)],
    prec       |-> [k \in AllKinds |-> Prec(k)],
    trig       |-> {k \in AllKinds : Trig(k)},
    binops     |-> BinOps,
    common     |-> CommonTable ]
ASSUME JsonSerialize(Out, Table)
=============================================================================
