------------------------------- MODULE MCDead -------------------------------
(***************************************************************************)
(* The lemma behind viable-prefix enumeration and behind the "completions" *)
(* the harness appends to rejected prefixes: once the parser definition    *)
(* has rejected a sequence inside it (not merely for want of more input),  *)
(* no continuation is accepted.  Here the enumeration is NOT cut at        *)
(* rejected prefixes: every sequence of at most N kinds is a state.        *)
(***************************************************************************)
EXTENDS Grammar
CONSTANTS N, E

VARIABLE toks
K == Kinds(E) \cup {"bad"}
Init == toks = <<>>
Next == /\ Len(toks) < N /\ \E k \in K : toks' = Append(toks, k)

DeadStaysDead == (\E j \in 1..(Len(toks) - 1) : ~Viable(SubSeq(toks, 1, j))) => ~Parse(toks).ok
\* and the independent recogniser agrees on sequences with a dead prefix too
DeadAgree == Parse(toks).ok = Rec(toks)
=============================================================================
