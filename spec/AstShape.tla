------------------------------ MODULE AstShape ------------------------------
(***************************************************************************)
(* The tree of the parser definition (ParseFn) in the vocabulary of the    *)
(* code's syntax trees (`enum Node` of each evaluator): what the real      *)
(* parser must hand to the tree walk.  The cfg-guarded hook keeps the      *)
(* Debug form of the tree `Parser::parse` returns; the harness reduces it  *)
(* to its shape (variant names, children in order, literal payloads        *)
(* dropped, argument lists spliced in) and every recorded event carries    *)
(* it; CalcTrace!AstOK compares it with Shape(tree, tokens).               *)
(*                                                                         *)
(* Deviations of the code's trees from ParseFn's, by name:                 *)
(*   NoGroupNode     round brackets leave no node                          *)
(*   BracketIsCall   floor / ceiling brackets are the nodes of floor/ceil  *)
(*   LeafIsNumber    literals, the placeholder, constants and the empty    *)
(*                   avg() are all Number leaves (values substituted by    *)
(*                   the parser)                                           *)
(*   PostfixIsBinary x deg, x rad are products with a Number; a            *)
(*                   superscript run is Pow with a Number                  *)
(*   PlusIsNothing   a prefix plus leaves no node (already so in ParseFn)  *)
(***************************************************************************)
EXTENDS Vocab, Sequences, Naturals

OpName(k) == CASE k = "add" -> "Add" [] k = "sub" -> "Subtract" [] k = "mul" -> "Multiply" [] k = "div" -> "Divide"
               [] k = "mod" -> "Modulo" [] k = "pow" -> "Pow" [] k = "and" -> "And" [] k = "or" -> "Or"
               [] k = "shl" -> "LeftShift" [] k = "shr" -> "RightShift"
\* the canonical function names of Vocab are the variant names, but for the remainder
FnName(f) == IF f = "Mod" THEN "Modulo" ELSE f

RECURSIVE Shape(_, _)
Shape(n, tk) ==
  CASE n[1] \in {"num", "ans", "const", "zero"} -> <<"Number">>
    [] n[1] = "lp"   -> Shape(n[2], tk)
    [] n[1] = "lf"   -> <<"Floor", Shape(n[2], tk)>>
    [] n[1] = "lc"   -> <<"Ceil", Shape(n[2], tk)>>
    [] n[1] = "neg"  -> <<"Negative", Shape(n[2], tk)>>
    [] n[1] = "fact" -> <<"Factorial", Shape(n[2], tk)>>
    [] n[1] \in {"deg", "rad"} -> <<"Multiply", Shape(n[2], tk), <<"Number">>>>
    [] n[1] = "psup" -> <<"Pow", Shape(n[2], tk), <<"Number">>>>
    [] n[1] \in Funs -> <<FnName(tk[n[2]].fn)>> \o [i \in 1..Len(n[3]) |-> Shape(n[3][i], tk)]
    [] n[1] = "imul" -> <<"Multiply", Shape(n[2], tk), Shape(n[3], tk)>>
    [] OTHER -> <<OpName(n[1]), Shape(n[2], tk), Shape(n[3], tk)>>

\* the same tree as its preorder list of <<variant, number of children>> (what the recorded events carry: flat, whatever the depth)
RECURSIVE Flat(_), FlatSeq(_)
Flat(s) == <<<<s[1], Len(s) - 1>>>> \o FlatSeq(SubSeq(s, 2, Len(s)))
FlatSeq(ss) == IF ss = <<>> THEN <<>> ELSE Flat(Head(ss)) \o FlatSeq(Tail(ss))
=============================================================================
