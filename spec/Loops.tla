-------------------------------- MODULE Loops --------------------------------
(***************************************************************************)
(* The value-dependent loops of the evaluators (C02), one action per loop  *)
(* iteration, as the repaired code runs them:                              *)
(*   factorial   product loop, skipped above the cap of the number type    *)
(*   Euclid      gcd / lcm on magnitudes                                   *)
(*   ilog        n <- floor(log_b n) while n > 1, Err when the iterate     *)
(*               does not decrease (bases <= e^(1/e) have a fixed point)   *)
(*   Halley      Lambert W: at most HalleyCap iterations                   *)
(* `it` counts iterations (what the hook counts as kind LOOP).             *)
(* Invariant: it <= LoopCap(kind); liveness: every loop terminates.        *)
(***************************************************************************)
EXTENDS Integers, Sequences, FiniteSets, TLC
CONSTANTS W,            \* word size of the integer model (factorial overflow, Euclid bound)
          NMax          \* largest argument explored

\* caps that are constants of the code: f64 stops multiplying above 170 (171! = inf), HalleyCap iterations of W
F64FactCap == 170
HalleyCap == 53                    \* 50 double steps + 3 refinement steps in eval_decimal
MaxI == 2^(W-1) - 1
EuclidCap == (3 * W) \div 2 + 2    \* Lame: at most ~1.44 log2(n) division steps

VARIABLES kind, x, y, acc, it, st
vars == <<kind, x, y, acc, it, st>>

Kinds == {"fact_int", "fact_f64", "euclid", "ilog", "halley"}

Init == /\ kind \in Kinds /\ it = 0 /\ st = "run"
        /\ x \in 0..NMax
        /\ y \in (IF kind \in {"euclid", "ilog"} THEN 0..NMax ELSE {0})
        /\ acc = (IF kind \in {"fact_int", "fact_f64"} THEN 1 ELSE 0)

\* ---- factorial over W-bit integers: for i in 2..=n with a checked product
FactIntStep == /\ kind = "fact_int" /\ st = "run"
               /\ IF it + 2 > x THEN st' = "done" /\ UNCHANGED <<acc, it>>
                  ELSE IF acc * (it + 2) > MaxI THEN st' = "err" /\ it' = it + 1 /\ UNCHANGED acc      \* checked_mul fails
                  ELSE acc' = acc * (it + 2) /\ it' = it + 1 /\ UNCHANGED st
               /\ UNCHANGED <<kind, x, y>>
\* ---- factorial over doubles: above the cap the result is inf without iterating (acc is not modelled)
FactF64Step == /\ kind = "fact_f64" /\ st = "run"
               /\ IF x > F64FactCap \/ it + 2 > x THEN st' = "done" /\ UNCHANGED it
                  ELSE it' = it + 1 /\ UNCHANGED st
               /\ UNCHANGED <<kind, x, y, acc>>
\* ---- Euclid on magnitudes: while b != 0 { (a, b) = (b, a % b) }
EuclidStep == /\ kind = "euclid" /\ st = "run"
              /\ IF y = 0 THEN st' = "done" /\ UNCHANGED <<x, y, it>>
                 ELSE x' = y /\ y' = x % y /\ it' = it + 1 /\ UNCHANGED st
              /\ UNCHANGED <<kind, acc>>
\* ---- ilog(n, b) for integer n and integer base b: floor(log_b n) by repeated division
RECURSIVE FloorLog(_, _)
FloorLog(n, b) == IF n < b THEN 0 ELSE 1 + FloorLog(n \div b, b)
ILogStep == /\ kind = "ilog" /\ st = "run"
            /\ IF x <= 1 THEN st' = "done" /\ UNCHANGED <<x, it>>
               ELSE IF y <= 1 THEN st' = "err" /\ it' = it + 1 /\ UNCHANGED x        \* log of the base is <= 0 or 0: the iterate cannot decrease
               ELSE LET next == FloorLog(x, y) IN
                    IF next >= x THEN st' = "err" /\ it' = it + 1 /\ UNCHANGED x
                    ELSE x' = next /\ it' = it + 1 /\ UNCHANGED st
            /\ UNCHANGED <<kind, y, acc>>
\* ---- Halley: a counted loop with a convergence exit (the numerical iteration itself is a named primitive)
HalleyStep == /\ kind = "halley" /\ st = "run"
              /\ \/ it < HalleyCap /\ it' = it + 1 /\ UNCHANGED st          \* one more step
                 \/ st' = "done" /\ UNCHANGED it                            \* converged, or the cap is reached
              /\ UNCHANGED <<kind, x, y, acc>>

Next == FactIntStep \/ FactF64Step \/ EuclidStep \/ ILogStep \/ HalleyStep
Spec == Init /\ [][Next]_vars /\ WF_vars(Next)

LoopCap(k) == CASE k = "fact_int" -> W
                [] k = "fact_f64" -> F64FactCap
                [] k = "euclid" -> EuclidCap
                [] k = "ilog" -> 6
                [] k = "halley" -> HalleyCap
Bounded == it <= LoopCap(kind)
\* the iteration count does not depend on the magnitude of the argument beyond the cap
CapIndependent == (kind = "fact_f64" /\ x > F64FactCap) => it = 0
Terminates == <>(st # "run")
\* negative control: the pinned factorial iterated n-1 times whatever n (expected: violated for n > cap + 1)
PinnedFactBound == kind = "fact_f64" => (x > 1 => x - 1 <= F64FactCap)

(***************************************************************************)
(* The bound of C02 for a whole call of len characters: lexing (<= 2 len+2,*)
(* Lexer), parsing (<= 2 + 3 tokens, ParseSteps), tree walk (<= 2 tokens), *)
(* loops (each loop node costs at most MaxLoopCap iterations and at least  *)
(* one character of input).                                                *)
(***************************************************************************)
MaxLoopCap == 170
ASSUME \A len \in 0..256 : (2 * len + 2) + (2 + 3 * len) + (2 * len) + MaxLoopCap * len <= 4096 + 256 * len
ASSUME \A k \in Kinds : k # "fact_int" => LoopCap(k) <= MaxLoopCap
=============================================================================
