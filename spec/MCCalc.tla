------------------------------- MODULE MCCalc -------------------------------
(* Model-checking instance of Calc: three threads, a handful of keys (the    *)
(* same expression with two placeholders, an expression that is rejected,    *)
(* one that fails to evaluate), every interleaving of invoke / return up to  *)
(* MaxCalls completed calls.                                                 *)
EXTENDS Calc
CONSTANT MaxCalls
K1 == [e |-> "i64", chars |-> <<"@", "*", "2">>, ph |-> Val(3)]
K2 == [e |-> "i64", chars |-> <<"@", "*", "2">>, ph |-> Val(-3)]
K3 == [e |-> "f64", chars |-> <<"1", ")">>, ph |-> Val(0)]
K4 == [e |-> "i64", chars |-> <<"1", "/", "0">>, ph |-> Val(0)]
K5 == [e |-> "num", chars |-> <<"@", "*", "2">>, ph |-> Val(3)]
MCKeys == {K1, K2, K3, K4, K5}
MCThreads == {"t1", "t2", "t3"}
Bound == Len(history) <= MaxCalls
\* sanity: the outcomes the model assigns
Sane == /\ OutcomeOf(K1).val = Val(6) /\ OutcomeOf(K2).val = Val(-6)
        /\ OutcomeOf(K3).v = "reject" /\ OutcomeOf(K4).val.k = "err" /\ OutcomeOf(K5).val = Val(6)
ASSUME Sane
=============================================================================
