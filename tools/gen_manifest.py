#!/usr/bin/env python3
"""Regenerates /verif/MANIFEST.json from the table below (kept here so that it stays valid and consistent)."""
import json, os, subprocess
V = os.path.dirname(os.path.dirname(os.path.abspath(__file__)))
props = [json.loads(l) for l in open(os.path.join(V, "properties.jsonl"))]
hook_commits = subprocess.run(["git", "-C", "/repo", "log", "--format=%H %s"], capture_output=True, text=True).stdout.splitlines()
hook_commits = [l.split()[0] for l in hook_commits if "verif hooks" in l]
TRUST = "TLC explores the specification exhaustively within the stated bounds; the harness's reference interpreter transcribes the specification's evaluation rules (bound by ref-selftest vectors and by trace validation of recorded calls); host f64/libm operations are the trusted IEEE primitives; catch_unwind + process supervision observe panics, aborts and hangs."
CLAIMS = {
 "C01": ("model_checking", "TLC enumerates every viable token sequence (MCGrammar) over each evaluator's full vocabulary plus the foreign token; each is rendered with boundary placeholders (NaN, +-inf, -0, i64/Decimal extremes) and replayed into debug and release builds; any panic/abort/hang is a violation; recorded calls are validated against CalcTrace", "spec ParseFn/Lexer totality + exhaustive replay + trace validation"),
 "C03": ("model_checking", "ParseFn == independent recogniser (Grammar!Rec) on every token sequence up to N, every string up to K over five alphabets (MCLexer); Reject => Err and Accept+defined => Ok replayed into all five evaluators; CalcTrace re-derives the verdict of every recorded call", "TLC: parser vs independent recogniser; exhaustive token/character replay; trace validation"),
 "C04": ("model_checking", "ParseFn tree == capture-chain root selection (Grammar!RTree) on every juxtaposition-free sequence up to N; the code's value must equal the reference evaluation of the spec's tree bit for bit under three tree-revealing operand assignments", "TLC: parser tree vs independent grouping rule; value conformance on spec trees"),
 "C12": ("model_checking", "Tree(t) == Tree(Explicit(t)) for every sequence with a juxtaposition site up to N (TLC); both renderings must have the identical outcome in the code; reject table", "TLC: Explicit rewrite lemma; metamorphic replay at spec-computed sites"),
 "C13": ("model_checking", "each rewrite with its side condition is an invariant of MCGrammar/MCLexer (SupOK, PlusOK, WrapOK, WsInvariant); the code must give the identical outcome at every spec-computed site, incl. all 25 White_Space characters", "TLC: rewrite lemmas; metamorphic replay"),
 "C14": ("model_checking", "expressions with @ from the enumerated set x the boundary placeholder pool vs the reference evaluation with the placeholder bound; @ replaced by a literal of the same value; @ never joins an implicit product (NoJuxAfter/NoJuxBefore)", "TLC enumeration + placeholder pool replay"),
 "C20": ("model_checking", "substitution lemma Tree(C[(E)]) = Tree(C[@])[@:=Tree(E)] (SubstOK) for every context up to N and the sample subexpressions; three public calls per pair must agree bit for bit", "TLC: substitution lemma; metamorphic replay"),
}
checks = []
for p in props:
    pid = p["id"]
    if pid not in CLAIMS: continue
    lvl, text, tech = CLAIMS[pid]
    checks.append({"property_id": pid, "quick_cmd": "./check %s --tier quick" % pid, "thorough_cmd": "./check %s --tier thorough" % pid,
                   "evidence_file": "/verif/evidence/%s.json" % pid, "replay_cmd_template": "./check %s --replay {path}" % pid,
                   "engine": "tlc+harness", "level_claimed": {"category": lvl, "text": text, "design_ref": "DESIGN.md section 6, %s" % pid},
                   "level_note": TRUST, "technique": tech})
na = [{"property_id": p["id"], "reason": "check under construction in this round (specification module and conformance harness not finished yet); see DESIGN.md section 10"} for p in props if p["id"] not in CLAIMS]
m = {"version": 1, "setup_cmd": "./setup.sh",
     "hooks": {"guard": "verif_hooks", "enable": "cargo feature `verif_hooks` of string_calculator (harness feature `hooks`, on by default in /verif/harness)",
               "baseline_off_cmd": "cd /repo && cargo test --workspace --no-fail-fast --offline", "source_commits": hook_commits, "add_only": True},
     "engines": [{"name": "tlc+harness", "path": "/verif/check", "serves_properties": sorted(CLAIMS), "kind_free_text": "TLA+ specification (spec/*.tla) model-checked with TLC; TLC-generated behaviours replayed into the real code by a Rust harness; recorded calls validated against the specification (CalcTrace)"}],
     "checks": checks, "notes": "see DESIGN.md", "not_applicable": na}
json.dump(m, open(os.path.join(V, "MANIFEST.json"), "w"), indent=1)
print(len(checks), "checks;", len(na), "not applicable")
