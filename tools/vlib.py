"""Shared machinery of the /verif checks: TLC runs, harness builds, supervised replays,
trace validation, evidence files, known findings.  Python stdlib only."""
import json, os, re, subprocess, sys, time, hashlib, shutil, signal

VERIF = os.path.dirname(os.path.dirname(os.path.abspath(__file__)))
SPEC = os.path.join(VERIF, "spec")
WORK = os.path.join(VERIF, "work")
HARNESS = os.path.join(VERIF, "harness")
REPLAYS = os.path.join(VERIF, "replays")
EVID = os.path.join(VERIF, "evidence")
REPO = os.environ.get("VERIF_REPO", "/repo")
NCPU = os.cpu_count() or 4

class ToolError(Exception):
    pass

def log(*a):
    print("[check]", *a, file=sys.stderr, flush=True)

def ensure(d):
    os.makedirs(d, exist_ok=True)
    return d

# --------------------------------------------------------------------------- TLC
STATS_RE = re.compile(r"^(\d+) states generated, (\d+) distinct states found, (\d+) states left on queue")
DEPTH_RE = re.compile(r"depth of the complete state graph search is (\d+)")
BEH_PREFIX = '<<"BEH", "'

def tlc(module, cfg_text, name, workers=8, env=None, beh_out=None, timeout=1800, extra_args=(), java_opts=None, coverage=False):
    """Run TLC on spec/<module>.tla with the given configuration text.  Lines the model prints as
    <<"BEH", "<json>">> are written to beh_out (ndjson).  Returns a dict with states/distinct/depth,
    wall time, the violated invariant (if any) and the raw tail of the log."""
    wd = ensure(os.path.join(WORK, "tlc", name))
    cfg = os.path.join(wd, name + ".cfg")
    with open(cfg, "w") as f:
        f.write(cfg_text)
    md = os.path.join(wd, "md")
    shutil.rmtree(md, ignore_errors=True)
    cmd = ["tlc", "-workers", str(workers), "-metadir", md, "-cleanup", "-noGenerateSpecTE", "-config", cfg]
    if coverage:
        cmd += ["-coverage", "1"]
    cmd += list(extra_args) + [os.path.join(SPEC, module + ".tla")]
    e = dict(os.environ)
    if env:
        e.update(env)
    if java_opts:
        e["JAVA_TOOL_OPTIONS"] = java_opts
        # the POSTCONDITION is evaluated on the launcher's main thread, whose stack the `java` launcher sizes from its own options only
        xss = [o for o in java_opts.split() if o.startswith("-Xss")]
        if xss:
            e["JDK_JAVA_OPTIONS"] = xss[0]
    t0 = time.time()
    logp = os.path.join(wd, name + ".log")
    res = {"module": module, "name": name, "states": 0, "distinct": 0, "depth": 0, "violated": None, "error": None, "beh": 0,
           "coverage": {}, "cmd": " ".join(cmd)}
    bo = open(beh_out, "w") if beh_out else None
    prints = []
    with open(logp, "w") as lf:
        p = subprocess.Popen(cmd, cwd=SPEC, env=e, stdout=subprocess.PIPE, stderr=subprocess.STDOUT, text=True, bufsize=1 << 20)
        try:
            for line in p.stdout:
                if line.startswith(BEH_PREFIX):
                    if bo:
                        inner = line.rstrip("\n")[len(BEH_PREFIX) - 1:-2]
                        try:
                            bo.write(json.loads(inner) + "\n")
                            res["beh"] += 1
                        except Exception:
                            pass
                    continue
                if line.startswith('<<"'):
                    prints.append(line.rstrip("\n"))
                    if len(prints) > 200000:
                        prints = prints[-100000:]
                    continue
                lf.write(line)
                m = STATS_RE.match(line)
                if m:
                    res["states"], res["distinct"] = int(m.group(1)), int(m.group(2))
                m = DEPTH_RE.search(line)
                if m:
                    res["depth"] = int(m.group(1))
                if "Temporal properties were violated" in line and res["violated"] is None:
                    res["violated"] = "temporal property"
                if "is violated" in line or "Error:" in line:
                    if res["violated"] is None and "Invariant" in line:
                        mm = re.search(r"Invariant (\S+) is violated", line)
                        res["violated"] = mm.group(1) if mm else line.strip()
                    elif res["error"] is None and "Error:" in line:
                        res["error"] = line.strip()
                if time.time() - t0 > timeout:
                    p.kill()
                    res["error"] = "timeout after %ds" % timeout
                    break
            p.wait()
        finally:
            if bo:
                bo.close()
    res["rc"] = p.returncode
    res["wall_s"] = round(time.time() - t0, 2)
    res["log"] = logp
    res["prints"] = prints
    if coverage:
        res["coverage"] = parse_coverage(logp)
    return res

COV_RE = re.compile(r"^<(\w+) line (\d+), col (\d+) to line (\d+), col (\d+) of module (\w+)>: (\d+):(\d+)")
def parse_coverage(logp):
    cov = {}
    for line in open(logp, errors="replace"):
        m = COV_RE.match(line.strip())
        if m:
            cov[m.group(6) + "." + m.group(1)] = {"distinct": int(m.group(7)), "taken": int(m.group(8))}
    return cov

def tlc_ok(r, what):
    """A TLC run that did not finish cleanly is a tool error unless it reports an invariant violation."""
    if r["error"] and not r["violated"]:
        raise ToolError("%s: TLC error: %s (log %s)" % (what, r["error"], r["log"]))
    if r["rc"] not in (0, 12, 13) and not r["violated"]:
        raise ToolError("%s: TLC exit code %s (log %s)" % (what, r["rc"], r["log"]))

# --------------------------------------------------------------------------- harness
def build_harness(profile):
    """cargo build of the harness against /repo's current working tree (cargo decides what is stale)."""
    point_at_repo()
    cmd = ["cargo", "build", "--offline", "--quiet"]
    if profile == "release":
        cmd.append("--release")
    elif profile != "debug":
        cmd += ["--profile", profile]
    env = dict(os.environ, CARGO_NET_OFFLINE="true")
    t0 = time.time()
    p = subprocess.run(cmd, cwd=HARNESS, env=env, stdout=subprocess.PIPE, stderr=subprocess.STDOUT, text=True)
    if p.returncode != 0:
        raise ToolError("harness build (%s) failed:\n%s" % (profile, p.stdout[-4000:]))
    return os.path.join(HARNESS, "target", profile, "sc_harness"), round(time.time() - t0, 1)

def point_at_repo():
    """harness/repo and featprobe/repo are symbolic links to the tree under test: /repo, unless VERIF_REPO names another checkout
    (background runs of the thorough tier against a snapshot while /repo itself is being used for seeded changes)"""
    for d in (HARNESS, os.path.join(VERIF, "featprobe")):
        link = os.path.join(d, "repo")
        try:
            cur = os.readlink(link)
        except OSError:
            cur = None
        if cur != REPO:
            try:
                if os.path.lexists(link):
                    os.remove(link)
                os.symlink(REPO, link)
            except OSError as e:
                raise ToolError("cannot point %s at %s: %s" % (link, REPO, e))

def vocab_json():
    out = os.path.join(ensure(WORK), "vocab.json")
    r = tlc("ExportVocab", "", "vocab", workers=1, env={"VOCAB_OUT": out}, timeout=120)
    if r["rc"] != 0 or not os.path.exists(out):
        raise ToolError("vocabulary export failed (log %s)" % r["log"])
    return out

def supervise(binary, jobs, stall_s=20, max_restarts=50):
    """Run one harness process per job; a process that stops making progress (heartbeat file unchanged for
    stall_s seconds) or dies is killed, the item it was working on is recorded as a hang/abort finding, and
    the job is restarted after that item.  Returns the list of hang/abort records."""
    procs = []
    incidents = []
    for j in jobs:
        procs.append(start_job(binary, j))
    while procs:
        time.sleep(0.2)
        for pr in list(procs):
            j = pr["job"]
            rc = pr["p"].poll()
            hb = read_hb(j["hb"])
            now = time.time()
            if hb != pr["last_hb"]:
                pr["last_hb"], pr["t_hb"] = hb, now
            if rc is not None:
                procs.remove(pr)
                if rc == 101:
                    # exit code of an uncaught Rust panic: panics of the code under test are caught (catch_unwind), so this is the harness itself
                    raise ToolError("the harness panicked (job %s, item %s): %s" % (j.get("jobfile"), hb, (pr["p"].stderr.read() or "")[-1500:]))
                if rc != 0 and hb is not None and hb != DONE:
                    incidents.append({"kind": "abort", "job": j, "item": hb, "rc": rc, "stderr": pr["p"].stderr.read()[-2000:] if pr["p"].stderr else "", "input": cur_input(j)})
                    if pr["restarts"] < max_restarts:
                        nj = dict(j, start=hb + 1)
                        np = start_job(binary, nj)
                        np["restarts"] = pr["restarts"] + 1
                        np["hangs"] = pr.get("hangs", 0)
                        procs.append(np)
                elif rc != 0:
                    raise ToolError("harness job failed rc=%s: %s" % (rc, pr["p"].stderr.read()[-2000:] if pr["p"].stderr else ""))
                continue
            # a stall is confirmed before it counts: the first time a job stops making progress on an item it is restarted ON that
            # item with three times the patience (a loaded machine can starve a process; a call that does not return stalls again);
            # once a job has a confirmed hang, its later stalls count at once
            patience = max(stall_s, j.get("stall_s", 0)) * (3 if pr.get("suspect") == hb and hb is not None else 1)
            if now - pr["t_hb"] > patience and hb is not None and hb != DONE:
                pr["p"].kill()
                pr["p"].wait()
                procs.remove(pr)
                confirmed = pr.get("suspect") == hb or pr.get("hangs", 0) > 0
                if confirmed:
                    incidents.append({"kind": "hang", "job": j, "item": hb, "input": cur_input(j)})
                if pr["restarts"] < max_restarts:
                    nj = dict(j, start=(hb + 1) if confirmed else hb)
                    np = start_job(binary, nj)
                    np["restarts"] = pr["restarts"] + 1
                    np["hangs"] = pr.get("hangs", 0) + (1 if confirmed else 0)
                    np["suspect"] = None if confirmed else hb
                    procs.append(np)
    return incidents

def cur_input(j):
    """the input a job was working on when it died (written by the modes that run one call per thread)"""
    try:
        return open(j["hb"] + ".input", encoding="utf-8").read()
    except Exception:
        return None

DONE = 18446744073709551615
def read_hb(path):
    try:
        s = open(path).read().strip()
        return int(s) if s else None
    except Exception:
        return None

def start_job(binary, j):
    jp = j["jobfile"]
    with open(jp, "w") as f:
        json.dump(j, f)
    try:
        os.remove(j["hb"])
    except OSError:
        pass
    p = subprocess.Popen([binary, "run", jp], stdout=subprocess.DEVNULL, stderr=subprocess.PIPE, text=True)
    return {"p": p, "job": j, "last_hb": None, "t_hb": time.time(), "restarts": 0}

def read_ndjson(path):
    out = []
    if not os.path.exists(path):
        return out
    for line in open(path, errors="replace"):
        line = line.strip()
        if line:
            try:
                out.append(json.loads(line))
            except Exception:
                pass
    return out

def nth_line(path, n):
    with open(path) as f:
        for i, line in enumerate(f):
            if i == n:
                return line
    return None

# --------------------------------------------------------------------------- known findings / violations
def load_known():
    p = os.path.join(VERIF, "known_findings.json")
    if not os.path.exists(p):
        return []
    return json.load(open(p)).get("findings", [])

def finding_key(f):
    return "%s|%s|%s" % (f.get("e", ""), f.get("input", ""), f.get("ph", ""))

def write_replay(prop, f):
    ensure(REPLAYS)
    h = hashlib.sha1(json.dumps(f, sort_keys=True).encode()).hexdigest()[:12]
    p = os.path.join(REPLAYS, "%s-%s.json" % (prop, h))
    with open(p, "w") as fh:
        json.dump(f, fh, indent=1, ensure_ascii=False)
    return p

def report(prop, findings, max_lines=20):
    """Print KNOWN-FINDING / VIOLATION lines.  Returns the number of violations (unknown findings)."""
    known = [k for k in load_known() if k.get("status") == "open" and k.get("property") == prop]
    kmap = {}
    for k in known:
        kmap["%s|%s|%s" % (k.get("evaluator", ""), k.get("input", ""), k.get("placeholder", ""))] = k
    seen_causes = set()
    nviol = 0
    printed = 0
    known_hit = set()
    for f in findings:
        key = finding_key(f)
        key_noph = "%s|%s|" % (f.get("e", ""), f.get("input", ""))
        k = kmap.get(key) or kmap.get(key_noph)
        if k is not None:
            if id(k) not in known_hit:
                known_hit.add(id(k))
                print("KNOWN-FINDING: property=%s %s" % (prop, k.get("what_fails", "")))
            continue
        cause = "%s|%s|%s" % (f.get("cat"), f.get("e"), cause_shape(f))
        nviol += 1
        if cause in seen_causes or printed >= max_lines:
            continue
        seen_causes.add(cause)
        printed += 1
        path = write_replay(prop, f)
        print("VIOLATION property=%s replay=%s" % (prop, path))
        log("  %s eval_%s(%r, %s): expected %s, got %s" % (f.get("cat"), f.get("e"), f.get("input"), f.get("ph_show", f.get("ph")),
                                                          str(f.get("expected"))[:160], str(f.get("actual"))[:200]))
    return nviol

def cause_shape(f):
    """Deduplication key: the token-kind shape when known, else the input with digits collapsed."""
    ex = f.get("extra") or {}
    if isinstance(ex, dict) and ex.get("toks"):
        return " ".join(ex["toks"])
    return re.sub(r"\d+", "N", f.get("input", ""))[:60]

def write_evidence(prop, tier, seed, level, coverage, wall_s, violations, assumptions=None):
    ensure(EVID)
    ev = {"property_id": prop, "tier": tier, "seed": int(seed), "level": level, "coverage": coverage,
          "assumptions": assumptions or [], "wall_s": round(wall_s, 2), "violations": int(violations)}
    with open(os.path.join(EVID, prop + ".json"), "w") as f:
        json.dump(ev, f, indent=1, ensure_ascii=False)
    return ev
