#!/usr/bin/env python3
"""Run checks against a seeded change: tools/try_seed.py <seed-name> <check> [<check> ...]
applies /verif/seeded/<name>/patch.diff to /repo, runs `./check <id> --tier quick` for each, and undoes the patch."""
import subprocess, sys, os, json, time
name, checks = sys.argv[1], sys.argv[2:]
V = os.path.dirname(os.path.dirname(os.path.abspath(__file__)))
patch = os.path.join(V, "seeded", name, "patch.diff")
assert subprocess.run(["git", "-C", "/repo", "status", "--porcelain", "--untracked-files=no"], capture_output=True, text=True).stdout.strip() == "", "/repo is dirty"
subprocess.run(["git", "-C", "/repo", "apply", patch], check=True)
res = {}
try:
    for c in checks:
        t0 = time.time()
        p = subprocess.run([os.path.join(V, "check"), c, "--tier", os.environ.get("TIER", "quick")], cwd=V, capture_output=True, text=True)
        viol = [l for l in p.stdout.splitlines() if l.startswith("VIOLATION")]
        detail = [l for l in p.stderr.splitlines() if l.startswith("[check]   ")][:3]
        res[c] = {"rc": p.returncode, "violations": len(viol), "wall_s": round(time.time() - t0), "first": detail}
        print(name, c, "rc=%d" % p.returncode, "%d VIOLATION lines" % len(viol), "%ds" % (time.time() - t0))
        for d in detail: print("   ", d[:220])
finally:
    subprocess.run(["git", "-C", "/repo", "checkout", "--", "."], check=True)
    subprocess.run(["git", "-C", "/repo", "clean", "-fdq", "--", "src"], check=True)
mp = os.path.join(V, "seeded", name, "meta.json")
m = json.load(open(mp))
m.setdefault("checks", {}).update(res)
json.dump(m, open(mp, "w"), indent=1)
