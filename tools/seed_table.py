#!/usr/bin/env python3
"""Writes seeded/RESULTS.md: every seeded change, what it needs to manifest, and which quick checks reported it (from meta.json)."""
import json, os, glob
V = os.path.dirname(os.path.dirname(os.path.abspath(__file__)))
DESC = {
 "C01": ("eval_number Integer/Integer division via wrapping_rem: i64::MIN / -1 panics", "@ = i64::MIN divided by -1"),
 "C02": ("eval_decimal ilog fixed-point guard `next >= n` weakened to `next > n`: endless loop", "base in (1, e^(1/e)), start value at the fixed point"),
 "C03": ("eval_decimal variadic argument list accepts a trailing comma: `max(1,2,)` is Ok(2)", "variadic call ending in `,)` in eval_decimal"),
 "C04": ("eval_number superscript token moved to the Functional precedence class: `-3²` = -9", "prefix sign or ^ to the left of a superscript, eval_number only"),
 "C05": ("eval_f64 `x^0.5` computed with sqrt", "base -0.0 / -inf, or one of the 0.08% of bases where pow and sqrt differ by an ulp"),
 "C06": ("eval_i64 `<<` overflow check replaced by a checked multiplication", "negative value shifted onto the sign bit (`-1<<63`)"),
 "C07": ("eval_decimal `%` computed as a - b*trunc(a/b)", "quotient needing more than 28 digits"),
 "C08": ("eval_complex lb() rewritten in polar form with a wrong constant", "argument with non-zero phase"),
 "C09": ("eval_number Integer/Integer division through f64 and Number::from", "exact quotient above 2^53"),
 "C10": ("eval_number sgn of a Float zero via f64::signum", "argument of variant Float with value +-0.0"),
 "C11": ("eval_i64 gcd fold stops once the running gcd is 1", "a failing or later argument after the gcd reached 1"),
 "C12": ("eval_f64 implicit product takes a literal right factor with parse_number(): suffixes lost", "literal after a group/call/factorial followed by ^ ! or a superscript"),
 "C13": ("eval_f64 str::parse fast path for bare literals before whitespace stripping", "whitespace inside `1e1`-like text / exponent notation"),
 "C14": ("eval_f64 process-wide last-AST memo keyed with == on the placeholder", "same text evaluated with 0.0 then -0.0"),
 "C15": ("eval_number Integer-vs-Float comparison wrong for negative fractional floats", "min/max/med of an Integer and a negative Float with the same truncation"),
 "C16": ("eval_f64 thread-local one-entry parse cache keyed with f64 ==", "two consecutive calls, same text, placeholders 0.0 and -0.0"),
 "C17": ("superscript digit cap that depends on cfg!(feature)", "subset without a float-backed evaluator and a superscript run of 20+ digits"),
 "C18": ("epsilon tolerance in the integrality test of From<f64> for Number", "doubles within an ulp of an integer"),
 "C19": ("eval_f64 literal tokenizer buffers at most 322 fractional digits", "literal with more than 322 fractional digits"),
 "C20": ("eval_f64 powi fast path when the exponent node is a literal / placeholder", "inexact base, whole exponent given once as (E) and once as @"),
 "r2C01": ("eval_f64 aggregates move their argument vector out of the Arc (`expect`): a nested aggregate inside a one-argument min/max panics", "`max(med(1,2,3))`: aggregate as the only argument of min/max"),
 "r2C02": ("eval_number min/max fold evaluates the first argument twice: values unchanged, cost 2^depth", "min/max nested 14+ deep through the first argument"),
 "r2C03": ("eval_f64 fast path returns str::parse::<f64> of a bare literal: `1e5` is Ok", "whole input is a literal in exponent notation"),
 "r2C04": ("eval_i64 right operand of binary + parsed at Shift level: a+b-c groups as a+(b-c)", "an intermediate sum that overflows in exactly one of the two groupings"),
 "r2C05": ("eval_f64 +/- chains accumulated from 0.0: `-0+-0` is +0.0", "chain whose terms are all negative zeros"),
 "r2C06": ("eval_i64 / and % share wrapping_div/wrapping_rem: i64::MIN / -1 wraps", "dividend i64::MIN (computed or via @), divisor -1"),
 "r2C07": ("eval_decimal +/- chains flattened through parentheses: a+(b-c) computed as (a+b)-c", "parenthesised sum whose re-associated intermediate needs more than 96 bits"),
 "r2C08": ("eval_complex sqrt by the textbook formula sqrt((|z|+-x)/2): cancellation", "nearly real argument, |Im/Re| in 2e-9 .. 3e-7"),
 "r2C09": ("eval_number Integer^Integer by a hand-written checked power that squares once too often", "power above 2^53 that fits i64 (3^39)"),
 "r2C10": ("eval_number round(Float) as (x + 0.5) truncated", "0.49999999999999994, 2^52+1"),
 "r2C11": ("eval_i64 median by select_nth_unstable, lower middle read from an unordered position", "even number of arguments above 16, unsorted"),
 "r2C12": ("all parsers re-associate an implicit product whose right factor is a product: A B C = (A*B)*C", "three juxtaposed factors with rounding- or overflow-sensitive values"),
 "r2C13": ("eval_f64 superscript powers evaluated with powi, ^N with powf", "inexact base, superscript exponent >= 3"),
 "r2C14": ("eval_f64 folds `-@` to a literal before the precedence loop: `-@!` = (-3)!", "prefix minus directly before @ followed by a postfix operator"),
 "r2C15": ("eval_number Integer/Integer additionally requires the f64 quotient to be integral", "exact division of a dividend above 2^53 that is not a double"),
 "r2C16": ("eval_number median operand buffer kept per thread, not cleared on the NaN early return", "a median with a NaN operand, then any median on the same thread"),
 "r2C17": ("eval_number uses its own gamma only when eval_f64 is not compiled in; that copy differs at negative arguments", "subset with eval_number without eval_f64, factorial of a negative argument"),
 "r2C18": ("From<f64> for Number flattened into guard clauses that NaN slips through: NaN -> Integer(0)", "NaN"),
 "r2C19": ("shared literal parser with a 16-digit fast path (u64 mantissa / 10^scale): double rounding", "literal with exactly 16 significant digits and a fraction"),
 "r2C20": ("eval_f64 strips the sign of a zero result at the top level only", "subexpression worth -0.0 in a context sensitive to the sign of zero"),
 "r3C01": ("eval_number avg clamps the mean to [min, max] of its arguments with f64::clamp: panics when every argument is NaN", "`avg(@)` with a NaN placeholder / `avg(0/0)`"),
 "r3C02": ("eval_i64 sqrt polished by integer Newton steps 'until it settles': oscillates for k^2-1 above 2^53", "`sqrt(4611686018427387903)` (perfect square minus one above 2^53)"),
 "r3C03": ("superscript digit table replaced by a range arm: U+2071..U+2073 accepted as digits after a superscript digit", "`2²ⁱ` - a look-alike code point right after a genuine superscript digit"),
 "r3C04": ("shared tokenizer helper folds a run of + - signs into one token: a binary sign merges with the prefix sign of its operand", "`5--3^2`: binary sign, prefix sign, then ^ or a superscript with an even exponent"),
 "r3C12": ("a literal continues an implicit product only after `)` or `!` - the floor / ceiling closers are forgotten", "`⌊2.5⌋3`: floor/ceil group directly followed by a literal (f64, decimal, number)"),
 "r3C13": ("superscript tokens get precedence Negative instead of Power in all evaluators: `2^3²` = 2^(3²)", "superscript run on the right operand of ^"),
 "r3C14": ("eval_complex wrapper rebuilds a negative-real placeholder with imaginary part +0.0", "placeholder (-4, -0.0) and a bit-exact or branch-cut-sensitive observation"),
 "r3C16": ("recursion-depth guard counted in one process-wide AtomicUsize shared by all threads", "several deep evaluations in flight at the same instant (summed depth above 4096)"),
 "r3C19": ("eval_f64 tokenizer reuses a scratch string; the `.DIGITS` arm appends without clearing", "a leading-point literal after another literal: `2*.5`"),
 "r3C20": ("eval_number parser splices min-in-min / max-in-max into one argument list", "NaN in a non-last slot of the inner call, which is not the outer call's first argument"),
 "r4C05": ("eval_f64 % takes an integer remainder when both operands are whole and at most `i64::MAX as f64` (= 2^63) in magnitude", "dividend exactly 2^63"),
 "r4C06": ("eval_i64 tokenizer reads `-9223372036854775808` as one literal, also after an operand (the binary minus is swallowed)", "`1-9223372036854775808`: the digits of 2^63 after a binary minus"),
 "r4C07": ("eval_decimal / through an exact-quotient fast path that trusts Decimal::rescale", "huge operand divided by / into one with more fractional digits (`10^27/0.25`)"),
 "r4C08": ("eval_complex cancels a directly nested ln(exp(x)) / exp(ln(x)) to x", "`ln(exp(z))` with |Im z| > pi"),
 "r4C09": ("eval_number product chain folded with try_fold without the order reversal: a*b*c*d computed as ((a*d)*c)*b", "three or more explicit factors whose order matters (0.1s, overflow, zero)"),
 "r4C10": ("log(x,b) quotient snapped to the nearest integer under an absolute 1e-12 tolerance (f64, number)", "x within 1e-12 of 1: the logarithm is flushed to 0"),
 "r4C11": ("eval_decimal min/max share a flattening fold; max wrongly splices a nested min", "`max(1, min(5, 7))`: min directly inside max with a larger inner argument"),
 "r4C15": ("eval_number median by select_nth_unstable (lower middle read from an unordered position)", "even count of at least 18 arguments in an unlucky order"),
 "r4C17": ("right factor of an implicit product parsed at `Additive.tighter()`, computed from enum ordinals with literal numbers", "subset without eval_i64, implicit product followed by ^, a superscript or !"),
 "r4C18": ("From<f64> for Number: upper bound replaced by the constant 2^63-1024 but the comparison stayed strict", "the double 2^63-1024 (largest f64 inside the i64 range)"),
 "r5C01": ("eval_number quotes the unread input in its trailing-token error and shortens it with String::truncate(20): panics inside a multi-byte character", "rejected input with more than 20 bytes after the offending token and a non-ASCII character straddling byte 20"),
 "r5C02": ("eval_i64 log(x,b) counts powers with saturating_mul: `power <= value` stays true for value = i64::MAX", "`log(9223372036854775807,7)`"),
 "r5C03": ("tokenizers skip an optional `r` after `a` before the whole name cascade: `arsin(`, `arcos(`, `arbs(` are accepted", "an unoffered name that is a near miss of an offered one"),
 "r5C04": ("eval_f64 computes a power of a power as x^(a*b) when a*b is whole and one exponent is fractional", "`-2^2^0.5`: negative base, tower with a fractional exponent"),
 "r5C12": ("the empty `avg()` returns early past implicit_multiply", "`avg()(3)`: empty avg directly followed by a factor"),
 "r5C13": ("postfix `!` no longer starts an implicit product: `3!(2)` is rejected, `(3!)(2)` is not", "factorial directly followed by a group, literal or function"),
 "r5C14": ("textual pre-check refuses `@` next to an operand; its letter test also catches the postfix operator `rad`", "`@rad`"),
 "r5C16": ("eval_decimal Lambert W warm-starts from a thread-local root left by the previous nearby evaluation", "two Lambert W evaluations with arguments within 6% of each other on one thread"),
 "r5C19": ("eval_decimal rounds literals with a fraction and 29 significant digits to 28", "reading back a full-precision result (`4/3`)"),
 "r5C20": ("eval_decimal: a closing bracket takes a following superscript before the enclosing operator can", "`-(1+2)²` against `-@²`"),
 "r6C05": ("eval_f64 evaluates `a*b - c*d` with Kahan's fused difference of products (fma): the two products are no longer rounded on their own", "a subtraction whose both operands are products with inexact (or overflowing) products"),
 "r6C06": ("eval_i64 factorial operand narrowed with `as u32` while porting the `!`-chain loop", "`x!` with x >= 2^32 (`4294967296!` is 1 instead of an overflow error)"),
 "r6C07": ("eval_decimal literal fast path builds the coefficient in a u64 and casts to i64; bound of 19 digits", "a 19-digit literal above i64::MAX (`9223372036854775808` becomes negative)"),
 "r6C08": ("eval_complex reads `2i^2` as 2*(i^2): an imaginary literal with a coefficient loses it as the base of a power", "imaginary literal with a coefficient other than 1 directly followed by `^` or a superscript"),
 "r6C09": ("eval_number `floor(a/b)` on Integers takes `checked_div_euclid`", "inexact quotient with a negative divisor (`floor(7/-2)`)"),
 "r6C10": ("eval_number / eval_decimal factorial chain stops as soon as the value is <= 2", "`x!!` with a non-integer x whose factorial is below 2 (`0.5!!`)"),
 "r6C11": ("eval_number Integer/Float comparison drops the range guards and relies on the saturating cast", "min/max/med over i64::MAX and a Float >= 2^63 (or i64::MIN and a Float < -2^63)"),
 "r6C15": ("`From<f64> for Number` snaps doubles within 2-4 ulps of an integer to that Integer", "a rounded operation whose double result is next to an integer (`log(1000,10)`, `root(3,125)`)"),
 "r6C17": ("lib.rs re-exports eval_f64 whenever eval_number or eval_complex is selected", "a feature subset with eval_number or eval_complex and without eval_f64"),
 "r6C18": ("eval_number floor/ceil/round/trunc convert an Integer operand to f64 and back", "Integer above 2^53 through a rounding function (`ceil(@)` with @ = 2^53+1)"),
 "r7C01": ("eval_i64 lcm drops its zero pre-pass: a second zero argument divides by gcd(0,0) = 0", "`lcm(0,0)` (two zero arguments; one zero is fine)"),
 "r7C02": ("eval_i64 gcd rewritten as a binary gcd that only removes the common power of two: degrades to repeated subtraction", "`gcd(9223372036854775807,2)`: a large odd argument next to a small even one"),
 "r7C03": ("whitespace stripping in the five wrappers became `retain(|c| c > ' ')`: control characters are deleted, non-ASCII whitespace is kept", "`1\\u{0}2`, `1\\u{1}+2` (accepted) or `1\\u{a0}+2` (now rejected)"),
 "r7C04": ("eval_decimal unwinds prefix signs and `!` chains in one loop, factorials first: a bracketed sign under a factorial is pulled outside", "`(-3)!`, `(-0.5)!`"),
 "r7C12": ("`Token::ExplicitFunction` arm added to convert_token_to_node in all parsers: a function name after a constant, `@`, superscript, ° or rad starts an implicit product", "`@abs(2)`, `pi cos(0)`, `2²sqrt(4)`"),
 "r7C13": ("runs of prefix signs folded by parity in parse_number: `--x` parses as `x` while `-(-x)` builds two negations", "`--@` at i64::MIN in eval_i64 / eval_number"),
 "r7C14": ("eval_decimal routes `@` through the literal helper: the placeholder gains left-side implicit multiplication", "`@(2)`, `@2`, `@sqrt(4)` in eval_decimal"),
 "r7C16": ("eval_decimal hands expressions of >= 256 bytes to a process-wide big-stack worker; send and receive are not one atomic step", "two threads inside long eval_decimal calls at once"),
 "r7C19": ("eval_i64 folds literal digits with the overflow guard `value >= i64::MAX / 10`", "the literals 9223372036854775800 ... 9223372036854775807"),
 "r7C20": ("eval_number product chain keeps an exact i128 product of Integer factors behind the rounded double", "`(3037000555*3037000665)*3` against `@*3`"),
}
rows = []
for d in sorted(glob.glob(os.path.join(V, "seeded", "*"))):
    mp = os.path.join(d, "meta.json")
    if not os.path.exists(mp):
        continue
    m = json.load(open(mp))
    sid = m["id"]
    ch = m.get("checks", {})
    caught = [k for k, v in ch.items() if v.get("rc") == 1]
    silent = [k for k, v in ch.items() if v.get("rc") == 0]
    desc, needs = DESC.get(sid, ("", ""))
    rows.append((sid, m.get("property"), desc, needs, ", ".join(sorted(caught)) or "-", ", ".join(sorted(silent)) or ""))
out = ["| id | breaks | change | needs | reported by (quick tier) | also run, silent |", "|---|---|---|---|---|---|"]
for r in rows:
    out.append("| %s | %s | %s | %s | %s | %s |" % r)
open(os.path.join(V, "seeded", "RESULTS.md"), "w").write("\n".join(out) + "\n")
print("\n".join(out))
