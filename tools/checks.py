"""The per-property checks.  Each: TLC on the property's model(s) -> behaviours -> harness replay into the
code built from /repo's working tree (debug and release) -> trace validation of the recorded calls with
CalcTrace -> evidence -> exit code."""
import json, os, sys, time, subprocess, shutil, concurrent.futures as cf
import vlib
from vlib import log, ToolError, WORK, VERIF

EVALS = ["f64", "i64", "dec", "cpx", "num"]

class Ctx:
    def __init__(self, prop, tier, seed, t0):
        self.prop, self.tier, self.seed, self.t0 = prop, tier, seed, t0
        self.wd = vlib.ensure(os.path.join(WORK, prop))
        for f in os.listdir(self.wd):
            p = os.path.join(self.wd, f)
            if os.path.isfile(p):
                os.remove(p)
    def quick(self):
        return self.tier == "quick"

# ----------------------------------------------------------------------------------------------- grammar family
GRAMMAR_INV = {
    "C03": ["Agree", "OkMeansAllConsumed"],
    "C04": ["TreeOK", "SignTighterThanPow", "SignLooserThanBang", "PowRightAbsorbsOnlyBang", "PowLeftAssoc"],
    "C12": ["JuxOK", "NoJuxAfter", "NoJuxBefore", "JuxExamples"],
    "C13": ["SupOK", "PlusOK", "WrapOK"],
    "C20": ["SubstOK"],
}

def grammar_cfg(e, n, invs, emit=True, sub=None):
    return ("CONSTANTS N = %d\nE = \"%s\"\nEmitOn = %s\n%sINIT Init\nNEXT Next\nCHECK_DEADLOCK FALSE\nINVARIANT %s\n"
            % (n, e, "TRUE" if emit else "FALSE", ("K <- %s\n" % sub) if sub else "", " ".join(invs + ["Emit"])))

def run_grammar_models(ctx, evals, n_of, invs, par=3, workers=5, sub=None):
    """TLC MCGrammar for each evaluator; returns {e: result} with behaviours in work/<prop>/beh_<e>.ndjson
    (sub: a focused sub-alphabet defined in MCGrammar, e.g. KArgs - longer sequences over fewer kinds; keys <sub>_<e>)"""
    res = {}
    def one(e):
        beh = os.path.join(ctx.wd, "beh_%s%s.ndjson" % ((sub + "_") if sub else "", e))
        r = vlib.tlc("MCGrammar", grammar_cfg(e, n_of(e), invs, sub=sub), "%s_grammar_%s%s" % (ctx.prop, (sub + "_") if sub else "", e), workers=workers, beh_out=beh,
                     timeout=3 * 3600)
        r["beh_path"] = beh
        r["N"] = n_of(e)
        r["e"] = e
        r["samples"] = []
        for pr in r["prints"]:
            if pr.startswith('<<"SAMPLES", '):
                try:
                    r["samples"] = json.loads(json.loads(pr[len('<<"SAMPLES", '):-2]))
                except Exception:
                    pass
        return e, r
    with cf.ThreadPoolExecutor(max_workers=par) as ex:
        for e, r in ex.map(one, evals):
            vlib.tlc_ok(r, "MCGrammar %s" % e)
            res[("%s_%s" % (sub, e)) if sub else e] = r
            log("TLC MCGrammar%s E=%s N=%d:" % ((" " + sub) if sub else "", e, r["N"]) + " %d states, %d distinct, %d behaviours, %.0fs%s" % (r["states"], r["distinct"], r["beh"], r["wall_s"],
                (" VIOLATED " + str(r["violated"])) if r["violated"] else ""))
    return res

ALPHABETS = {
    # literals, points, exponent-looking and imaginary-looking text, superscripts, signs
    "lit": ["1", "5", ".", "e", "i", "+", "(", ")", "SUP2", "@", "!", "WS"],
    # keyword letters around sin/sinh/asin/asinh/arsinh and a foreign character
    "kw1": ["s", "i", "n", "h", "a", "r", "(", ")", "1", "OTHER"],
    # pi / e / rad / exp / pow words
    "kw2": ["p", "i", "e", "r", "a", "d", "x", "(", "1", ")", "^", "2"],
    # aggregates and commas
    "kw3": ["m", "a", "x", "i", "n", "e", "d", "(", ")", ",", "1"],
    # operators of eval_i64 and the bracket notations
    "ops": ["1", "<", ">", "&", "|", "%", "-", "LFLOOR", "RFLOOR", "LCEIL", "RCEIL", "DEG", "PI_SYM", "w"],
    # superscript runs next to foreign characters (look-alikes of the superscript digits), signs and brackets
    "sup": ["2", "SUP2", "SUP0", "OTHER", "^", "-", "(", ")"],
    # the two-character operators of eval_i64 and their halves (two characters longer: see ALPHABET_EXTRA)
    "shift": ["1", "<", ">", "&", "|"],
}
ALPHABET_EXTRA = {"shift": 2}
LEXER_INV = ["Progress", "TokenCount", "FnNeedsParen", "OnlyOffered", "LiteralForm"]

def lexer_cfg(e, k, alphabet, invs, emit=True):
    return ("CONSTANTS K = %d\nE = \"%s\"\nAlphabet = {%s}\nEmitOn = %s\nINIT Init\nNEXT Next\nCHECK_DEADLOCK FALSE\nINVARIANT %s\n"
            % (k, e, ", ".join('"%s"' % c for c in alphabet), "TRUE" if emit else "FALSE", " ".join(invs + ["Emit"])))

def run_lexer_models(ctx, evals, names, k, invs=None, par=4, workers=4):
    """TLC MCLexer: every string of length <= k over each named alphabet, per evaluator."""
    invs = LEXER_INV if invs is None else invs
    res = {}
    def one(arg):
        e, an = arg
        key = "lex_%s_%s" % (e, an)
        beh = os.path.join(ctx.wd, "beh_%s.ndjson" % key)
        ke = k + ALPHABET_EXTRA.get(an, 0)
        r = vlib.tlc("MCLexer", lexer_cfg(e, ke, ALPHABETS[an], invs), "%s_%s" % (ctx.prop, key), workers=workers, beh_out=beh, timeout=3 * 3600)
        r.update({"beh_path": beh, "N": ke, "e": e, "alphabet": an, "samples": []})
        return key, r
    with cf.ThreadPoolExecutor(max_workers=par) as ex:
        for key, r in ex.map(one, [(e, an) for e in evals for an in names]):
            vlib.tlc_ok(r, "MCLexer %s" % key)
            res[key] = r
            log("TLC MCLexer %s K=%d: %d distinct strings, %.0fs%s" % (key, k, r["distinct"], r["wall_s"], (" VIOLATED " + str(r["violated"])) if r["violated"] else ""))
    return res

COMPOSE_INV = ["ComposeOK", "JoinOK", "ComposeAgree", "ComposeSteps"]

def run_compose_models(ctx, evals, nc, np_, depth=1, maxtoks=40, simulate=0, invs=None, par=3, workers=5, tag="comp", mode="plug"):
    """TLC MCCompose: every context <= nc tokens x every bracketed piece <= np_ tokens (exhaustive, depth 1), or - simulate > 0 -
    that many random chains of `depth` enclosing contexts (long inputs).  The composite's tree is ParseFn's own."""
    invs = COMPOSE_INV if invs is None else invs
    res = {}
    def one(e):
        key = "%s_%s" % (tag, e)
        beh = os.path.join(ctx.wd, "beh_%s.ndjson" % key)
        cfg = ("CONSTANTS E = \"%s\"\nMode = \"%s\"\nNc = %d\nNp = %d\nMaxDepth = %d\nMaxToks = %d\nEmitOn = TRUE\nINIT Init\nNEXT Next\nCHECK_DEADLOCK FALSE\nINVARIANT %s\n"
               % (e, mode, nc, np_, depth, maxtoks, " ".join(list(invs) + ["Emit"])))
        extra = ["-simulate", "num=%d" % simulate, "-depth", str(depth + 1), "-seed", str(ctx.seed)] if simulate else []
        r = vlib.tlc("MCCompose", cfg, "%s_%s" % (ctx.prop, key), workers=workers, beh_out=beh, timeout=3 * 3600, extra_args=extra)
        r.update({"beh_path": beh, "N": nc + np_ + 2, "e": e, "samples": [], "compose": {"Nc": nc, "Np": np_, "depth": depth, "simulate": simulate}})
        return key, r
    with cf.ThreadPoolExecutor(max_workers=par) as ex:
        for key, r in ex.map(one, evals):
            vlib.tlc_ok(r, "MCCompose %s" % key)
            if r["beh"] == 0:
                raise ToolError("MCCompose %s produced no composite (log %s)" % (key, r["log"]))
            res[key] = r
            log("TLC MCCompose %s Nc=%d Np=%d depth=%d%s: %d distinct, %d composites, %.0fs%s" % (key, nc, np_, depth, (" simulate=%d" % simulate) if simulate else "",
                r["distinct"], r["beh"], r["wall_s"], (" VIOLATED " + str(r["violated"])) if r["violated"] else ""))
    return res

MACHINE_INV = ["Refines", "TicksAgree", "DepthBound", "Linear", "RetDiscipline"]          # plus the liveness property Terminates (WF)

def run_machine_models(ctx, evals, mn, par=2, workers=6):
    """TLC MCParserMachine: the parser as an explicit stack machine (one frame per active Rust procedure), tokens supplied on demand;
    it refines ParseFn (verdict, tree, error position), its tick counter is ParseSteps' prediction, its recursion depth is bounded."""
    res = {}
    def one(e):
        cfg = "CONSTANTS E = \"%s\"\nMK <- MCKinds\nMN = %d\nSPECIFICATION MFair\nCHECK_DEADLOCK FALSE\nINVARIANT %s\nPROPERTY Terminates\n" % (e, mn, " ".join(MACHINE_INV))
        r = vlib.tlc("MCParserMachine", cfg, "%s_machine_%s" % (ctx.prop, e), workers=workers, timeout=3 * 3600, coverage=True)
        r.update({"e": e, "N": mn, "beh": 0, "beh_path": None, "samples": [], "machine": True})
        # vacuity: every action of the machine must have been taken (an action never taken means its part of the parser was never exercised)
        acts = ["GenEnter", "GenAfterNum", "GenLoop", "GenAfterConv", "PNumStep", "SignAfter", "EnclAfter", "StaticLp", "StaticArg", "StaticAfter",
                "ItemsLp", "ItemsTop", "ItemsAfter", "ImplTest", "ImplAfter", "ConvStep", "ConvAfter", "Finish"]
        cov = {k.split(".", 1)[1]: v for k, v in r["coverage"].items() if k.startswith("ParserMachine.")}
        never = [a for a in acts if a in cov and cov[a]["taken"] == 0]
        r["action_coverage"] = {a: cov[a]["taken"] for a in acts if a in cov}
        if cov and never and not r["violated"]:
            raise ToolError("MCParserMachine %s: actions never taken: %s" % (e, never))
        return e, r
    with cf.ThreadPoolExecutor(max_workers=par) as ex:
        for e, r in ex.map(one, evals):
            vlib.tlc_ok(r, "MCParserMachine %s" % e)
            res["machine_%s" % e] = r
            log("TLC MCParserMachine E=%s MN=%d: %d states, %d distinct, depth %d, %.0fs%s" % (e, mn, r["states"], r["distinct"], r["depth"], r["wall_s"],
                (" VIOLATED " + str(r["violated"])) if r["violated"] else ""))
    return res

def run_dead_models(ctx, evals, n, par=3):
    """TLC MCDead: the lemma behind viable-prefix enumeration and the completions appended to rejected prefixes - a sequence rejected
    inside it has no accepted continuation (every sequence of at most n kinds, NOT cut at rejected prefixes)."""
    res = {}
    def one(e):
        cfg = "CONSTANTS N = %d\nE = \"%s\"\nINIT Init\nNEXT Next\nCHECK_DEADLOCK FALSE\nINVARIANT DeadStaysDead DeadAgree\n" % (n, e)
        r = vlib.tlc("MCDead", cfg, "%s_dead_%s" % (ctx.prop, e), workers=5, timeout=3600)
        r.update({"e": e, "N": n, "beh": 0, "beh_path": None, "samples": []})
        return e, r
    with cf.ThreadPoolExecutor(max_workers=par) as ex:
        for e, r in ex.map(one, evals):
            vlib.tlc_ok(r, "MCDead %s" % e)
            res["dead_%s" % e] = r
            log("TLC MCDead E=%s N=%d: %d distinct sequences%s" % (e, n, r["distinct"], (" VIOLATED " + str(r["violated"])) if r["violated"] else ""))
    return res

def semantic_models(ctx, w, invs=("C06Exact", "C09IntegerWhenFits", "C09Rounding")):
    """TLC MCSem at word size w (exhaustive over all operand pairs) and ref-selftest of the interpreter at the same w."""
    beh = os.path.join(ctx.wd, "vectors_w%d.ndjson" % w)
    cfg = "CONSTANTS W = %d\nEmitOn = TRUE\nINIT Init\nNEXT Next\nCHECK_DEADLOCK FALSE\nINVARIANT %s Emit\n" % (w, " ".join(invs))
    r = vlib.tlc("MCSem", cfg, "%s_sem_w%d" % (ctx.prop, w), workers=8, beh_out=beh, timeout=3600)
    vlib.tlc_ok(r, "MCSem")
    log("TLC MCSem W=%d: %d states, %d vectors, %.0fs%s" % (w, r["distinct"], r["beh"], r["wall_s"], (" VIOLATED " + str(r["violated"])) if r["violated"] else ""))
    binary, _ = vlib.build_harness("debug")
    st = os.path.join(ctx.wd, "selftest_w%d.json" % w)
    job = os.path.join(ctx.wd, "selftest_job.json")
    json.dump({"mode": "selftest", "beh": beh, "stats": st}, open(job, "w"))
    p = subprocess.run([binary, "run", job], stdout=subprocess.PIPE, stderr=subprocess.PIPE, text=True)
    res = json.load(open(st)) if os.path.exists(st) else {}
    if p.returncode != 0 or res.get("disagreements", 1) != 0:
        raise ToolError("ref-selftest: the reference interpreter disagrees with the specification's vectors at W=%d: %s %s" % (w, res.get("first"), p.stderr[-500:]))
    log("ref-selftest W=%d: %d vectors reproduced by the reference interpreter" % (w, res["vectors"]))
    r["selftest"] = res
    r["W"] = w
    return r

def dec_cpx_models(ctx, p, s_, r_, every, invs=("C07Exact", "C08Exact")):
    """TLC MCDecCpx: the toy decimal format (P digits, S places) on all operand pairs, Gaussian integers in -R..R on all pairs;
    ref-selftest of the decimal / complex interpreter at the same format."""
    beh = os.path.join(ctx.wd, "vectors_dec_%d_%d.ndjson" % (p, s_))
    cfg = ("CONSTANTS P = %d\nS = %d\nR = %d\nEmitOn = TRUE\nEmitEvery = %d\nINIT Init\nNEXT Next\nCHECK_DEADLOCK FALSE\nINVARIANT %s Emit\n"
           % (p, s_, r_, every, " ".join(invs)))
    r = vlib.tlc("MCDecCpx", cfg, "%s_deccpx_%d_%d" % (ctx.prop, p, s_), workers=10, beh_out=beh, timeout=3600)
    vlib.tlc_ok(r, "MCDecCpx")
    log("TLC MCDecCpx P=%d S=%d R=%d: %d states, %d vectors, %.0fs%s" % (p, s_, r_, r["distinct"], r["beh"], r["wall_s"], (" VIOLATED " + str(r["violated"])) if r["violated"] else ""))
    binary, _ = vlib.build_harness("debug")
    st = os.path.join(ctx.wd, "selftest_dec.json")
    job = os.path.join(ctx.wd, "selftest_dec_job.json")
    json.dump({"mode": "selftest", "beh": beh, "stats": st}, open(job, "w"))
    pr = subprocess.run([binary, "run", job], stdout=subprocess.PIPE, stderr=subprocess.PIPE, text=True)
    res = json.load(open(st)) if os.path.exists(st) else {}
    if pr.returncode != 0 or res.get("disagreements", 1) != 0:
        raise ToolError("ref-selftest: the decimal/complex interpreter disagrees with the specification's vectors at P=%d S=%d: %s %s" % (p, s_, res.get("first"), pr.stderr[-500:]))
    log("ref-selftest P=%d S=%d: %d vectors reproduced by the reference interpreter" % (p, s_, res["vectors"]))
    r["selftest"] = res
    r["W"] = "P=%d,S=%d,R=%d" % (p, s_, r_)
    return r

def replay_jobs(ctx, binary, profile, models, opts, shards_per_e=3):
    jobs = []
    for key, r in models.items():
        e = r.get("e", key)
        for s in range(shards_per_e if r["beh"] > 2000 else 1):
            nsh = shards_per_e if r["beh"] > 2000 else 1
            tag = "%s_%s_%d" % (profile, key, s)
            j = {"mode": "replay", "e": e, "beh": r["beh_path"], "vocab": os.path.join(WORK, "vocab.json"), "shard": s, "nshards": nsh, "start": 0,
                 "out": os.path.join(ctx.wd, "findings_%s.ndjson" % tag), "events": os.path.join(ctx.wd, "events_%s.ndjson" % tag),
                 "stats": os.path.join(ctx.wd, "stats_%s.ndjson" % tag), "hb": os.path.join(ctx.wd, "hb_%s" % tag),
                 "unspec": os.path.join(ctx.wd, "unspec_%s_%s_%d.tsv" % (profile, key, s)),
                 "jobfile": os.path.join(ctx.wd, "job_%s.json" % tag), "seed": ctx.seed, "tier": ctx.tier}
            j.update(opts)
            j["samples"] = r.get("samples", [])
            jobs.append(j)
    return jobs

def collect(ctx, jobs, incidents):
    findings, stats = [], []
    for j in jobs:
        findings += vlib.read_ndjson(j["out"])
        stats += vlib.read_ndjson(j["stats"])
    for inc in incidents:
        j = inc["job"]
        line = vlib.nth_line(j["beh"], inc["item"]) if j.get("beh") else None
        cur = inc.get("input")
        findings.append({"cat": "hang" if inc["kind"] == "hang" else "abort", "e": j.get("e"), "input": cur if cur is not None else "(behaviour #%s of %s)" % (inc["item"], os.path.basename(j.get("beh", "?"))),
                         "ph": "", "expected": "the call returns", "actual": inc["kind"] + " rc=%s %s" % (inc.get("rc"), (inc.get("stderr") or "")[-300:]),
                         "extra": {"behaviour": json.loads(line) if line else None}, "profile": j.get("profile")})
    return findings, stats

def profile_diff(ctx, profiles):
    """Calls whose value is not asserted must still behave identically in the two build profiles (C01/C06).
    The two profiles run the same deterministic jobs, so their files of unasserted calls list the same calls in the same order:
    they are compared in lockstep (tens of millions of lines in the thorough tier); a pair of files that is not aligned (a job was
    restarted after a hang) is compared through a dictionary if it is small, else skipped with a note."""
    out = []
    a, b = profiles[0], profiles[1]
    for fn in sorted(os.listdir(ctx.wd)):
        if not fn.startswith("unspec_%s_" % a):
            continue
        fa = os.path.join(ctx.wd, fn)
        fb = os.path.join(ctx.wd, "unspec_%s_" % b + fn[len("unspec_%s_" % a):])
        if not os.path.exists(fb):
            continue
        aligned = True
        with open(fa, errors="replace") as ha, open(fb, errors="replace") as hb:
            for la, lb in zip(ha, hb):
                if la == lb:
                    continue
                pa, pb = la.rstrip("\n").split("\t"), lb.rstrip("\n").split("\t")
                if len(pa) != 5 or len(pb) != 5:      # a line cut short when a stalled job was killed in the middle of a write
                    continue
                if pa[0] != pb[0]:
                    aligned = False
                    break
                if pa[1] != pb[1]:
                    out.append({"cat": "profile_diff", "e": pa[2], "input": pa[4], "ph": pa[3], "ph_show": pa[3], "expected": "same outcome in debug and release",
                                "actual": "%s: %s / %s: %s" % (a, pa[1], b, pb[1]), "extra": {}})
        if not aligned:
            if os.path.getsize(fa) + os.path.getsize(fb) > 400 * 1024 * 1024:
                log("profile comparison of %s skipped: the two files are not aligned and too large to index" % fn)
                continue
            m = {}
            for line in open(fa, errors="replace"):
                parts = line.rstrip("\n").split("\t")
                if len(parts) == 5:
                    m[parts[0]] = parts[1:]
            for line in open(fb, errors="replace"):
                parts = line.rstrip("\n").split("\t")
                v = m.get(parts[0]) if len(parts) == 5 else None
                if v is not None and v[0] != parts[1]:
                    out.append({"cat": "profile_diff", "e": v[1], "input": v[3], "ph": v[2], "ph_show": v[2], "expected": "same outcome in debug and release",
                                "actual": "%s: %s / %s: %s" % (a, v[0], b, parts[1]), "extra": {}})
    if out:
        log("profile differences on unasserted calls: %d" % len(out))
    return out

def sum_stats(stats, key):
    return sum(s.get(key, 0) for s in stats)

def merge_rules(stats):
    out = {}
    for s in stats:
        for k, v in (s.get("not_asserted_rules") or {}).items():
            out[k] = out.get(k, 0) + v
    return out

def grammar_check(ctx, cats, n_quick, n_thorough, opts, evals=EVALS, invs=None, level="model_checking", extra_cov=None, profiles=("debug", "release"), lexer=None, sem=None, compose=None, extra_jobs=None, unopt_jobs=None, machine=None, focus=None):
    prop = ctx.prop
    opt0 = opts[0] if isinstance(opts, list) else opts
    invs = invs if invs is not None else GRAMMAR_INV.get(prop, [])
    vlib.vocab_json()
    n_of = (lambda e: n_quick.get(e, n_quick["*"])) if ctx.quick() else (lambda e: n_thorough.get(e, n_thorough["*"]))
    models = run_grammar_models(ctx, evals, n_of, invs)
    if focus:
        fn_ = focus["quick"] if ctx.quick() else focus["thorough"]
        models.update(run_grammar_models(ctx, [e for e in evals if e in focus.get("evals", evals)], (lambda e: fn_), invs, sub=focus["sub"]))
    if lexer:
        models.update(run_lexer_models(ctx, evals, lexer["alphabets"], lexer["k_quick"] if ctx.quick() else lexer["k_thorough"], lexer.get("invs")))
    if compose:
        c = compose["quick"] if ctx.quick() else compose["thorough"]
        cev = [e for e in evals if e in compose.get("evals", evals)]
        models.update(run_compose_models(ctx, cev, c[0], c[1]))
        jn = compose.get("join")
        if jn:
            jj = jn["quick"] if ctx.quick() else jn["thorough"]          # (longest right piece, longest left piece)
            models.update(run_compose_models(ctx, cev, jj[0], jj[1], tag="join", mode="join", invs=COMPOSE_INV + ["ComposeTree"]))
        ch = compose.get("chains")
        if ch:
            cc = ch["quick"] if ctx.quick() else ch["thorough"]      # (walks, depth, max tokens)
            models.update(run_compose_models(ctx, cev, 3, 3, depth=cc[1], maxtoks=cc[2], simulate=cc[0], tag="chain"))
    machines = run_machine_models(ctx, machine["evals"], machine["quick"] if ctx.quick() else machine["thorough"]) if machine else {}
    if any(po.get("reject_suffixes") for po in (opts if isinstance(opts, list) else [opts])):
        machines.update(run_dead_models(ctx, evals, 4 if ctx.quick() else 5))
    spec_viol = [(e, r["violated"]) for e, r in list(models.items()) + list(machines.items()) if r["violated"]]
    semr = None
    if sem and sem.get("dec"):
        d = sem["dec"]["quick"] if ctx.quick() else sem["dec"]["thorough"]
        semr = dec_cpx_models(ctx, d[0], d[1], d[2], d[3], sem.get("invs", ("C07Exact", "C08Exact")))
        if semr["violated"]:
            spec_viol.append(("MCDecCpx", semr["violated"]))
    elif sem:
        semr = semantic_models(ctx, sem["w_quick"] if ctx.quick() else sem["w_thorough"], sem.get("invs", ("C06Exact", "C09IntegerWhenFits", "C09Rounding")))
        if semr["violated"]:
            spec_viol.append(("MCSem", semr["violated"]))
    all_findings, all_stats = [], []
    for profile in profiles:
        binary, bt = vlib.build_harness(profile)
        log("harness (%s) built in %ss" % (profile, bt))
        passes = opts if isinstance(opts, list) else [opts]
        jobs = []
        for pi, po in enumerate(passes):
            sel = {k: r for k, r in models.items() if not po.get("only_models") or any(k.startswith(x) or r.get("e") == x for x in po["only_models"])}
            js = replay_jobs(ctx, binary, "%s_p%d" % (profile, pi), sel, dict(po, profile=profile))
            jobs += js
        if extra_jobs:
            jobs += extra_jobs(profile)
        incidents = []
        for i in range(0, len(jobs), 16):
            incidents += vlib.supervise(binary, jobs[i:i + 16])
        f, s = collect(ctx, jobs, incidents)
        all_findings += f
        all_stats += s
        log("replay (%s): %d calls, %d compared, %d matched, %d not asserted, %d findings" % (profile, sum_stats(s, "calls"), sum_stats(s, "compared"),
            sum_stats(s, "matched"), sum_stats(s, "not_asserted"), len(f)))
    if len(profiles) > 1:
        all_findings += profile_diff(ctx, profiles)
    if unopt_jobs:
        binary, bt = vlib.build_harness("unopt")
        log("harness (unopt) built in %ss" % bt)
        jobs = unopt_jobs(ctx)
        incidents = vlib.supervise(binary, jobs)
        f, s = collect(ctx, jobs, incidents)
        for x in f:
            x["profile"] = "unopt (opt-level 0), 2 MiB thread stack"
        all_findings += f
        all_stats += s
        log("replay (unopt, 2 MiB threads): %d calls, %d findings" % (sum_stats(s, "calls"), len(f)))
    mine = [f for f in all_findings if f.get("cat") in cats]
    others = {}
    for f in all_findings:
        if f.get("cat") not in cats:
            others[f.get("cat")] = others.get(f.get("cat"), 0) + 1
    if others:
        log("findings of other categories (reported by their own checks): %s" % others)
    # direction B
    tv = trace_validate(ctx, [j for j in os.listdir(ctx.wd) if j.startswith("events_")], cap=16000 if ctx.quick() else 40000)
    pt = ptrace_validate(ctx, cap=9000 if ctx.quick() else 40000) if opt0.get("parser_events") else None
    nviol = vlib.report(prop, mine)
    if pt:
        nviol += vlib.report(prop, pt["rejections"])
    for e, inv in spec_viol:
        print("VIOLATION property=%s replay=%s" % (prop, (models.get(e) or machines.get(e) or semr or {}).get("log", "(TLC log)")))
        log("  the specification itself violates %s for %s" % (inv, e))
        nviol += 1
    trace_cats = {"trace_status": {"C03"}, "trace_ticks": {"C02"}, "trace_pure": {"C16"}, "trace_ast": {"C03", "C04", "C12", "C13", "C14", "C20"}}
    tmine = [f for f in tv["rejections"] if prop in trace_cats.get(f["cat"], {prop}) or f["cat"] == "trace_value"]
    nviol += vlib.report(prop, tmine)
    cov = {"states": sum(r["distinct"] for r in models.values()), "transitions": sum(r["states"] for r in models.values()),
           "traces_validated_against_impl": sum_stats(all_stats, "calls") + tv["events"],
           "behaviours_replayed": sum(r["beh"] for r in models.values()), "trace_events_validated_by_TLC": tv["events"], "trace_decided": tv.get("totals", {}),
           "evaluations": sum_stats(all_stats, "calls"), "distinct_nontrivial": sum_stats(all_stats, "nontrivial"),
           "syntax_trees_compared_with_the_specification": sum_stats(all_stats, "trees_compared"),
           "compared": sum_stats(all_stats, "compared"), "matched": sum_stats(all_stats, "matched"), "not_asserted": sum_stats(all_stats, "not_asserted"),
           "not_asserted_rules": merge_rules(all_stats),
           "rule": "every viable token-kind sequence of length <= N over each evaluator's complete kind vocabulary plus the foreign token (TLC, exhaustive), rendered with %d operand/spelling assignments x placeholders (boundary pools: exhaustive assignment up to the cap), in %s builds; non-trivial = distinct (evaluator,input,placeholder) whose tree has >= %d operator nodes (or, for rejected input, >= 2 tokens)" % (opt0.get("assignments", 2), "/".join(profiles), opt0.get("nontrivial_min_ops", 2)),
           "N": {e: r["N"] for e, r in models.items()}, "invariants_checked": invs + (LEXER_INV if lexer else []) + (COMPOSE_INV if compose else []), "exhaustive": True,
           "composition": {k: r["compose"] for k, r in models.items() if r.get("compose")},
           "samples": [x for s in all_stats for x in s.get("samples", [])][:8],
           "max_steps_per_char": max([s.get("max_ticks_ratio", 0) for s in all_stats] + [0]),
           "tlc": {e: {"states": r["states"], "distinct": r["distinct"], "depth": r["depth"], "wall_s": r["wall_s"]} for e, r in models.items()},
           "profiles": list(profiles)}
    if machines:
        cov["states"] += sum(r["distinct"] for r in machines.values())
        cov["transitions"] += sum(r["states"] for r in machines.values())
        pm = {k: {"MN": r["N"], "states": r["distinct"], "depth": r["depth"], "invariants": MACHINE_INV, "transitions_per_action": r.get("action_coverage", {})} for k, r in machines.items() if r.get("machine")}
        if pm:
            cov["parser_machine"] = pm
        dm = {k: {"N": r["N"], "sequences": r["distinct"], "invariants": ["DeadStaysDead", "DeadAgree"]} for k, r in machines.items() if k.startswith("dead_")}
        if dm:
            cov["rejected_prefix_lemma"] = dm
    if pt:
        cov["parser_trace"] = {"records": pt["records"], "driven_through_ParserMachine": pt["stepped"], "events_matched": pt["events"]}
        cov["traces_validated_against_impl"] += pt["stepped"]
    if semr:
        cov["states"] += semr["distinct"]
        cov["transitions"] += semr["states"]
        cov["semantic_model"] = {"W": semr["W"], "states": semr["distinct"], "invariants": list(sem.get("invs", ("C06Exact", "C09IntegerWhenFits", "C09Rounding"))),
                                 "interpreter_vectors_reproduced": semr["selftest"]["vectors"], "vector_samples": semr["selftest"].get("samples", [])[:3]}
    if extra_cov:
        cov.update(extra_cov)
    if not cov["samples"]:
        cov["samples"] = ["(no sample collected)"]
    vlib.write_evidence(prop, ctx.tier, ctx.seed, level, cov, time.time() - ctx.t0, nviol,
                        ["the reference interpreter (harness/src/refsem) transcribes the specification's evaluation rules; host f64 operations are the IEEE primitives",
                         "catch_unwind + process supervision observe every panic, abort and hang"])
    return 1 if nviol else 0

# ----------------------------------------------------------------------------------------------- direction B
TRACE_CFG = "INIT TInit\nNEXT TNext\nCHECK_DEADLOCK FALSE\nPOSTCONDITION Accepted\n"
TRACE_JAVA = "-Xss1g -Dtlc2.tool.queue.IStateQueue=StateDeque"

def _validate_chunk(args):
    """One JVM, one pass: validate a chunk of events; every event the specification refuses is reported (CalcTrace notes it and goes on)."""
    name, lines = args
    rejections, totals = [], {}
    wd = vlib.ensure(os.path.join(WORK, "tlc", name))
    tp = os.path.join(wd, "trace.ndjson")
    with open(tp, "w") as f:
        f.write("".join(lines))
    r = vlib.tlc("CalcTrace", TRACE_CFG, name, workers=1, env={"TRACE": tp}, java_opts=TRACE_JAVA, timeout=1800)
    acc = [p for p in r["prints"] if p.startswith('<<"TRACE-ACCEPTED"')]
    rej = [p for p in r["prints"] if p.startswith('<<"TRACE-REJECTED"')]
    if not acc:
        raise ToolError("trace validation did not consume the trace (log %s, error %s)" % (r["log"], r["error"]))
    totals = json.loads(json.loads(acc[0][len('<<"TRACE-ACCEPTED", '):-2]))
    for rj in rej:
        try:
            arr = json.loads("[" + rj[2:-2] + "]")
            d, ev, diag = arr[1], json.loads(arr[2]), json.loads(arr[3])
        except Exception as e:
            raise ToolError("cannot parse trace rejection: %s (%s)" % (rj[:300], e))
        rejections.append({"index": d, "event": ev, "diag": diag})
    if totals.get("refused", 0) > len(rejections):
        log("trace chunk %s: %d events refused, %d printed in full" % (name, totals["refused"], len(rejections)))
    return {"totals": totals, "rejections": rejections, "n": len(lines)}

PTRACE_CFG = "CONSTANTS MK <- PTKinds\nMN = 100000\nINIT TInit\nNEXT TNext\nCHECK_DEADLOCK FALSE\nCONSTRAINT Track\nPOSTCONDITION Accepted\n"

def _ptrace_chunk(args):
    """One JVM: drive spec/ParserMachine.tla through the parser events of a chunk of recorded calls (spec/ParserTrace.tla)."""
    name, lines = args
    rejections, totals = [], {}
    wd = vlib.ensure(os.path.join(WORK, "tlc", name))
    for attempt in range(6):
        tp = os.path.join(wd, "ptrace.ndjson")
        with open(tp, "w") as f:
            f.write("".join(lines))
        r = vlib.tlc("MCParserTrace", PTRACE_CFG, name, workers=1, env={"TRACE": tp}, java_opts=TRACE_JAVA, timeout=1800)
        acc = [p for p in r["prints"] if p.startswith('<<"PTRACE-ACCEPTED"')]
        rej = [p for p in r["prints"] if p.startswith('<<"PTRACE-REJECTED"')]
        if acc:
            totals = json.loads(json.loads(acc[0][len('<<"PTRACE-ACCEPTED", '):-2]))
            break
        if rej:
            try:
                arr = json.loads("[" + rej[0][2:-2] + "]")
                d, ev, got = arr[1], json.loads(arr[2]), json.loads(arr[3])
            except Exception as e:
                raise ToolError("cannot parse parser-trace rejection: %s (%s)" % (rej[0][:300], e))
            rejections.append({"index": d, "event": ev, "machine_events": got})
            del lines[d - 1]
            continue
        raise ToolError("parser-trace validation produced neither acceptance nor rejection (log %s, error %s)" % (r["log"], r["error"]))
    return {"totals": totals, "rejections": rejections, "n": len(lines)}

def ptrace_validate(ctx, cap=12000, chunk=3000, par=4):
    """Direction B at step level: the parser events recorded by the hook against spec/ParserMachine.tla."""
    lines = []
    for fn in sorted(os.listdir(ctx.wd)):
        if fn.startswith("events_"):
            lines += [l for l in open(os.path.join(ctx.wd, fn), errors="replace") if '"pev"' in l and well_formed(l)]
    if len(lines) > cap:
        step = len(lines) / float(cap)
        lines = [lines[int(i * step)] for i in range(cap)]
    if not lines:
        return {"records": 0, "stepped": 0, "events": 0, "rejections": []}
    chunks = [("%s_ptrace_%d" % (ctx.prop, i // chunk), lines[i:i + chunk]) for i in range(0, len(lines), chunk)]
    t0 = time.time()
    with cf.ThreadPoolExecutor(max_workers=par) as ex:
        res = list(ex.map(_ptrace_chunk, chunks))
    tot = {"records": 0, "stepped": 0, "events": 0}
    findings = []
    for r in res:
        for k in tot:
            tot[k] += r["totals"].get(k, 0)
        for rj in r["rejections"]:
            ev = rj["event"]
            findings.append({"cat": "trace_parser", "e": ev.get("e"), "input": concrete_of(ev.get("chars", [])), "chars": ev.get("chars"), "ph": json.dumps(ev.get("ph")),
                             "expected": "a behaviour of spec/ParserMachine.tla; the machine can follow the recorded events only as far as %s" % json.dumps(rj["machine_events"]),
                             "actual": "recorded parser events %s, outcome %s, parse ticks %s" % (json.dumps(ev.get("pev")), ev.get("st"), (ev.get("tk") or {}).get("parse")), "extra": {}})
    log("parser-trace validation: %d records, %d driven through ParserMachine step by step (%d events), %.0fs; %d rejected" % (tot["records"], tot["stepped"], tot["events"], time.time() - t0, len(findings)))
    tot["rejections"] = findings
    return tot

def well_formed(line):
    """a harness process killed in the middle of a write (hang, abort) leaves a truncated last line behind"""
    if not line.endswith("\n"):
        return False
    try:
        json.loads(line)
        return True
    except Exception:
        return False

def concrete_of(chars):
    m = {"PI_SYM": "π", "LFLOOR": "⌊", "RFLOOR": "⌋", "LCEIL": "⌈", "RCEIL": "⌉", "DEG": "°", "WS": " ", "OTHER": "#"}
    sup = "⁰¹²³⁴⁵⁶⁷⁸⁹"
    out = []
    for c in chars:
        if c.startswith("SUP") and len(c) == 4:
            out.append(sup[int(c[3])])
        else:
            out.append(m.get(c, c))
    return "".join(out)

def trace_validate(ctx, event_files, cap=40000, chunk=4000, par=8, reset_between_files=True):
    """Direction B: validate recorded calls against the specification (spec/CalcTrace.tla)."""
    lines = []
    for fn in sorted(event_files):
        p = fn if os.path.isabs(fn) else os.path.join(ctx.wd, fn)
        if not os.path.exists(p):
            continue
        ls = [l for l in open(p, errors="replace") if l.strip() and well_formed(l)]
        if ls and reset_between_files and lines:
            lines.append('{"ev":"Reset"}\n')
        lines += ls
    if len(lines) > cap:
        # calls the harness did not judge itself (near-miss names, deep shapes, mutations) are decided only here: they go first
        prio = [l for l in lines if '"v":"unclaimed"' in l and not l.startswith('{"ev":"Reset"')]
        rest = [l for l in lines if not ('"v":"unclaimed"' in l and not l.startswith('{"ev":"Reset"'))]
        if len(prio) > cap // 2:
            step = len(prio) / float(cap // 2)
            prio = [prio[int(i * step)] for i in range(cap // 2)]
        room = cap - len(prio)
        step = max(1.0, len(rest) / float(room))
        lines = prio + [rest[int(i * step)] for i in range(min(room, len(rest)))]
    if not lines:
        return {"events": 0, "rejections": [], "totals": {}}
    if ctx.prop == "C16":
        # purity relates later events to the isolated ones of the same process: one trace per recorded file, not split
        chunks, cur = [], []
        for l in lines:
            if l.startswith('{"ev":"Reset"}'):
                if cur:
                    chunks.append(("%s_trace_%d" % (ctx.prop, len(chunks)), cur))
                cur = []
            else:
                cur.append(l)
        if cur:
            chunks.append(("%s_trace_%d" % (ctx.prop, len(chunks)), cur))
    else:
        chunks = [("%s_trace_%d" % (ctx.prop, i // chunk), lines[i:i + chunk]) for i in range(0, len(lines), chunk)]
    t0 = time.time()
    res = []
    with cf.ThreadPoolExecutor(max_workers=par) as ex:
        res = list(ex.map(_validate_chunk, chunks))
    totals = {}
    findings = []
    for r in res:
        for k, v in r["totals"].items():
            totals[k] = totals.get(k, 0) + v
        for rj in r["rejections"]:
            ev, dg = rj["event"], rj["diag"]
            failed = [k for k in ("claim", "status", "ticks", "ast", "value", "pure") if dg.get(k) is False]
            if dg.get("failed") in ("claim", "status", "ticks", "ast", "value", "pure"):
                failed = [dg["failed"]]
            if "claim" in failed:
                raise ToolError("harness rendering does not lex to the claimed token kinds: %s -> %s" % (ev.get("chars"), dg.get("kinds")))
            cat = "trace_" + (failed[0] if failed else "unknown")
            findings.append({"cat": cat, "e": ev.get("e"), "input": concrete_of(ev.get("chars", [])), "chars": ev.get("chars"), "ph": json.dumps(ev.get("ph")),
                             "expected": "spec verdict %s (%s), value %s" % (dg.get("verdict"), dg.get("rule"), dg.get("expected")),
                             "actual": "%s %s, %s steps" % (ev.get("st"), ev.get("val"), ev.get("ticks")), "extra": {"diag": dg}})
    n = sum(r["n"] for r in res)
    log("trace validation: %d events in %d chunks, %.0fs; decided by the spec: %s; %d rejected" % (n, len(chunks), time.time() - t0, totals, len(findings)))
    if findings:
        byc = {}
        for f_ in findings:
            byc[f_["cat"]] = byc.get(f_["cat"], 0) + 1
        log("trace rejections by category: %s" % byc)
    return {"events": n, "rejections": findings, "totals": totals}

# ----------------------------------------------------------------------------------------------- checks
def nested_agg_jobs(ctx):
    # C01 also runs the function sweep of C10 (every (evaluator, spelling) pair of spec/MCVocab.tla on boundary arguments, every pair of
    # boundary arguments of the variadic functions): only panics, aborts and hangs count here
    vocab = {}
    def fn_jobs(profile):
        if "r" not in vocab:
            vlib.vocab_json()
            vocab["r"] = simple_model(ctx, "MCVocab", "INIT Init\nNEXT Next\nCHECK_DEADLOCK FALSE\nINVARIANT Spelled ConstSpelled NeedsParen Emit\n", "vocab")
        return [dict(base_job(ctx, "replay", "%s_fn_%d" % (profile, sh), profile, beh=vocab["r"]["beh_path"], e="f64", shard=sh, nshards=4,
                              samples_per_pair=40 if ctx.quick() else 4000, event_every=0, event_cap=0)) for sh in range(4)]
    return lambda profile: ([base_job(ctx, "agg", "%s_nested_%s" % (profile, e), profile, nested_e=e, event_every=100, event_cap=500) for e in ["i64", "f64", "dec", "num"]]
                            + deep_shape_jobs(ctx)(profile) + fn_jobs(profile))

def unopt_shape_jobs(ctx):
    """deep shapes in the unoptimised build, each call on a thread with std's default stack of 2 MiB"""
    return [base_job(ctx, "loops", "unopt_shapes_%s" % e, "unopt", e=e, shapes=True, thread_stack=2 * 1024 * 1024, event_every=0, event_cap=0) for e in EVALS]

def deep_shape_jobs(ctx):
    return lambda profile: [base_job(ctx, "loops", "%s_shapes_%s" % (profile, e), profile, e=e, shapes=True, event_every=1, event_cap=2000) for e in EVALS]

def c01(ctx):
    q = ctx.quick()
    return grammar_check(ctx, {"panic", "abort", "hang"}, {"*": 4}, {"*": 6, "f64": 6}, extra_jobs=nested_agg_jobs(ctx), unopt_jobs=unopt_shape_jobs, opts=
                         [{"assignments": 2, "full_placeholders": True, "event_every": 50, "event_cap": 2000, "reject_suffixes": 2, "mutations": 3 if q else 12},
                          {"assignments": 1, "boundary_pool": True, "full_placeholders": True, "max_assign": 200 if q else 4000, "event_every": 500, "event_cap": 1000, "compose_assign": 6 if q else 40}],
                         invs=[], lexer={"alphabets": ["lit", "kw1", "kw2", "kw3", "ops", "sup", "shift"], "k_quick": 3, "k_thorough": 5},
                         compose={"quick": (3, 3), "thorough": (4, 4), "chains": {"quick": (4, 14, 100), "thorough": (150, 20, 110)}})

def c03(ctx):
    nm = 700 if ctx.quick() else 12000
    near = lambda profile: ([base_job(ctx, "nearmiss", "%s_nearmiss_%s" % (profile, e), profile, e=e, n=nm, seed=ctx.seed, event_every=1, event_cap=nm) for e in EVALS] if profile == "debug" else [])
    return grammar_check(ctx, {"ok_on_reject", "err_on_defined", "ast"}, {"*": 5}, {"*": 6, "f64": 7}, extra_jobs=near, opts= {"assignments": 2, "event_every": 100, "event_cap": 2000, "nontrivial_min_ops": 1, "reject_suffixes": 2, "parser_events": True},
                         lexer={"alphabets": ["lit", "kw1", "kw2", "kw3", "ops", "sup", "shift"], "k_quick": 3, "k_thorough": 5})

def c04(ctx):
    # second pass: in eval_i64 (and on eval_number's Integers) two groupings of + - * differ only in whether an intermediate
    # result overflows, so the tree-revealing operands there are the boundary values
    return grammar_check(ctx, {"value", "err_on_defined", "ok_on_semantic_err", "ast"}, {"*": 5}, {"*": 6, "f64": 7},
                         [{"assignments": 3, "event_every": 100, "event_cap": 2000, "nontrivial_min_ops": 2, "parser_events": True},
                          {"assignments": 1, "boundary_pool": True, "full_placeholders": True, "max_assign": 150 if ctx.quick() else 3000, "event_every": 1000, "event_cap": 500,
                           "nontrivial_min_ops": 2, "only_models": ["i64", "num"]}],
                         compose={"quick": (3, 3), "thorough": (4, 4), "join": {"quick": (2, 3), "thorough": (3, 4)}}, machine={"evals": ["f64", "i64"], "quick": 4, "thorough": 6},
                         extra_jobs=(lambda profile: chain_jobs(ctx, EVALS)(profile) + jux_jobs(ctx, EVALS)(profile)))

def c12(ctx):
    return grammar_check(ctx, {"meta_jux", "ok_on_reject", "ast"}, {"*": 5}, {"*": 6, "f64": 7},
                         {"assignments": 2, "extras": ["jux"], "event_every": 200, "event_cap": 1500, "nontrivial_min_ops": 1, "parser_events": True, "reject_suffixes": 1, "full_placeholders": True},
                         compose={"quick": (3, 3), "thorough": (4, 4), "evals": ["f64", "i64", "dec"]}, extra_jobs=jux_jobs(ctx, EVALS))

def c13(ctx):
    return grammar_check(ctx, {"meta_ws", "meta_alias", "meta_notation", "meta_sup", "meta_plus", "meta_wrap", "ast"}, {"*": 4}, {"*": 5, "f64": 6},
                         {"assignments": 2, "all_functions": True, "extras": ["spellings"], "event_every": 200, "event_cap": 1500, "nontrivial_min_ops": 1, "full_placeholders": True},
                         lexer={"alphabets": ["lit", "kw1", "kw2"], "k_quick": 3, "k_thorough": 4, "invs": ["WsInvariant"]}, extra_jobs=jux_jobs(ctx, EVALS))

def c14(ctx):
    return grammar_check(ctx, {"value", "meta_ans", "ok_on_reject", "ast"}, {"*": 4}, {"*": 5, "f64": 6},
                         {"assignments": 2, "full_placeholders": True, "extras": ["ans"], "event_every": 200, "event_cap": 1500, "nontrivial_min_ops": 1, "reject_suffixes": 1},
                         invs=["NoJuxAfter", "NoJuxBefore"], focus={"sub": "KArgs", "quick": 6, "thorough": 7})

def c20(ctx):
    return grammar_check(ctx, {"meta_subst", "ast"}, {"*": 5, "f64": 6, "num": 6}, {"*": 6, "f64": 7},
                         {"assignments": 1, "extras": ["subst"], "event_every": 200, "event_cap": 1500, "nontrivial_min_ops": 1, "full_placeholders": True})

# the operations each statement speaks about (a tree using anything else is executed but not asserted by that check)
SCOPE_C05 = {"ops": ["add", "sub", "mul", "div", "mod", "neg", "pow", "const"], "fns": ["Abs", "Floor", "Ceil", "Truncate", "Round", "Sqrt", "Mod", "Pow"]}
SCOPE_C06 = {"ops": ["add", "sub", "mul", "div", "mod", "pow", "and", "or", "shl", "shr", "neg", "fact"], "fns": ["Abs", "Sign", "Mod", "Pow"]}
SCOPE_C07 = {"ops": ["add", "sub", "mul", "div", "mod", "neg"], "fns": ["Mod"]}
SCOPE_C09 = {"ops": ["add", "sub", "mul", "div", "mod", "pow", "neg", "fact"], "fns": ["Abs", "Sign", "Mod", "Pow", "Floor", "Ceil", "Round", "Truncate"]}

def c06(ctx):
    return grammar_check(ctx, {"value", "ok_on_semantic_err", "err_on_defined", "profile_diff", "panic", "abort"}, {"*": 5}, {"*": 6},
                         {"assignments": 1, "boundary_pool": True, "full_placeholders": True, "max_assign": 700 if ctx.quick() else 6000,
                          "event_every": 500, "event_cap": 2000, "nontrivial_min_ops": 1, "scope": SCOPE_C06}, evals=["i64"], invs=[],
                         extra_jobs=(lambda profile: chain_jobs(ctx, ["i64"])(profile) + cpx_fn_jobs(ctx, profile, e="i64", only_functions=SCOPE_C06["fns"])), sem={"w_quick": 6, "w_thorough": 8, "invs": ("C06Exact",)}, compose={"quick": (4, 3), "thorough": (4, 4), "chains": {"quick": (6, 8, 40), "thorough": (200, 10, 60)}, "join": {"quick": (3, 3), "thorough": (3, 4)}})

def c09(ctx):
    return grammar_check(ctx, {"value", "ok_on_semantic_err", "err_on_defined", "profile_diff", "panic", "abort"}, {"*": 5}, {"*": 6},
                         {"assignments": 1, "boundary_pool": True, "full_placeholders": True, "max_assign": 700 if ctx.quick() else 6000,
                          "event_every": 500, "event_cap": 2000, "nontrivial_min_ops": 1, "scope": SCOPE_C09}, evals=["num"], invs=[],
                         extra_jobs=(lambda profile: chain_jobs(ctx, ["num"])(profile) + cpx_fn_jobs(ctx, profile, e="num", only_functions=SCOPE_C09["fns"])), sem={"w_quick": 6, "w_thorough": 8, "invs": ("C09IntegerWhenFits", "C09Rounding")}, compose={"quick": (3, 3), "thorough": (4, 4), "chains": {"quick": (6, 8, 40), "thorough": (200, 10, 60)}, "join": {"quick": (3, 3), "thorough": (3, 4)}})

def base_job(ctx, mode, tag, profile, **kw):
    j = {"mode": mode, "vocab": os.path.join(WORK, "vocab.json"), "shard": 0, "nshards": 1, "start": 0,
         "out": os.path.join(ctx.wd, "findings_%s.ndjson" % tag), "events": os.path.join(ctx.wd, "events_%s.ndjson" % tag),
         "stats": os.path.join(ctx.wd, "stats_%s.ndjson" % tag), "hb": os.path.join(ctx.wd, "hb_%s" % tag),
         "unspec": os.path.join(ctx.wd, "unspec_%s.tsv" % tag),
         "jobfile": os.path.join(ctx.wd, "job_%s.json" % tag), "seed": ctx.seed, "tier": ctx.tier, "profile": profile,
         "event_every": 20, "event_cap": 3000}
    j.update(kw)
    return j

def finish(ctx, cats, tlc_runs, all_findings, all_stats, rule, level="model_checking", extra=None, spec_viol=(), trace_cap=40000):
    """common tail of a check: trace validation, reporting, evidence"""
    prop = ctx.prop
    tv = trace_validate(ctx, [j for j in os.listdir(ctx.wd) if j.startswith("events_")], cap=trace_cap)
    mine = [f for f in all_findings if f.get("cat") in cats]
    others = {}
    for f in all_findings:
        if f.get("cat") not in cats:
            others[f.get("cat")] = others.get(f.get("cat"), 0) + 1
    if others:
        log("findings of other categories (reported by their own checks): %s" % others)
    nviol = vlib.report(prop, mine)
    for name, inv, logp in spec_viol:
        print("VIOLATION property=%s replay=%s" % (prop, logp))
        log("  the specification itself violates %s (%s)" % (inv, name))
        nviol += 1
    trace_cats = {"trace_status": {"C03"}, "trace_ticks": {"C02"}, "trace_pure": {"C16"}, "trace_ast": {"C03", "C04", "C12", "C13", "C14", "C20"}}
    nviol += vlib.report(prop, [f for f in tv["rejections"] if prop in trace_cats.get(f["cat"], {prop}) or f["cat"] == "trace_value"])
    cov = {"states": sum(r["distinct"] for r in tlc_runs), "transitions": sum(r["states"] for r in tlc_runs),
           "traces_validated_against_impl": sum_stats(all_stats, "calls") + tv["events"], "trace_events_validated_by_TLC": tv["events"],
           "trace_decided": tv.get("totals", {}), "evaluations": sum_stats(all_stats, "calls"), "distinct_nontrivial": sum_stats(all_stats, "nontrivial"),
           "compared": sum_stats(all_stats, "compared"), "matched": sum_stats(all_stats, "matched"), "not_asserted": sum_stats(all_stats, "not_asserted"),
           "not_asserted_rules": merge_rules(all_stats), "metamorphic_pairs": sum_stats(all_stats, "metamorphic_pairs"), "rule": rule,
           "samples": [x for s in all_stats for x in s.get("samples", [])][:8] or ["(no sample collected)"],
           "max_steps_per_char": max([s.get("max_ticks_ratio", 0) for s in all_stats] + [0]),
           "tlc": [{"module": r["module"], "name": r["name"], "states": r["states"], "distinct": r["distinct"], "wall_s": r["wall_s"]} for r in tlc_runs]}
    if extra:
        cov.update(extra)
    vlib.write_evidence(prop, ctx.tier, ctx.seed, level, cov, time.time() - ctx.t0, nviol,
                        ["the reference interpreter (harness/src/refsem) transcribes the specification's evaluation rules and is bound to it by ref-selftest vectors; host f64 operations are the IEEE primitives",
                         "catch_unwind + process supervision observe every panic, abort and hang"])
    return 1 if nviol else 0

def run_jobs(ctx, jobs_of_profile, profiles=("debug", "release")):
    all_findings, all_stats = [], []
    for profile in profiles:
        binary, bt = vlib.build_harness(profile)
        jobs = jobs_of_profile(profile)
        incidents = []
        for i in range(0, len(jobs), 16):
            incidents += vlib.supervise(binary, jobs[i:i + 16])
        f, s = collect(ctx, jobs, incidents)
        all_findings += f
        all_stats += s
        log("replay (%s): %d calls, %d compared, %d matched, %d not asserted, %d metamorphic pairs, %d findings" % (profile, sum_stats(s, "calls"),
            sum_stats(s, "compared"), sum_stats(s, "matched"), sum_stats(s, "not_asserted"), sum_stats(s, "metamorphic_pairs"), len(f)))
    if len(profiles) > 1:
        all_findings += profile_diff(ctx, profiles)
    return all_findings, all_stats

def c11(ctx):
    vlib.vocab_json()
    maxlen = 4 if ctx.quick() else 5
    beh = os.path.join(ctx.wd, "agg_vectors.ndjson")
    cfg = "CONSTANTS MaxLen = %d\nEmitOn = TRUE\nINIT Init\nNEXT Next\nCHECK_DEADLOCK FALSE\nINVARIANT C11FoldsAgree C11OrderIndependent Emit\n" % maxlen
    r = vlib.tlc("MCAgg", cfg, "C11_agg", workers=8, beh_out=beh, timeout=3600)
    vlib.tlc_ok(r, "MCAgg")
    log("TLC MCAgg MaxLen=%d: %d lists, %.0fs%s" % (maxlen, r["distinct"], r["wall_s"], (" VIOLATED " + str(r["violated"])) if r["violated"] else ""))
    semr = semantic_models(ctx, 6 if ctx.quick() else 8)
    def jobs(profile):
        js = [base_job(ctx, "agg", "%s_vec_%d" % (profile, s), profile, beh=beh, shard=s, nshards=4) for s in range(4)]
        js += nested_agg_jobs(ctx)(profile)
        for e in ["i64", "f64", "dec", "num"]:
            js.append(base_job(ctx, "agg", "%s_bnd_%s" % (profile, e), profile, boundary_e=e, exhaustive_len=2 if ctx.quick() else 3,
                               random_lists=300 if ctx.quick() else 20000, event_every=200))
        return js
    f, s = run_jobs(ctx, jobs)
    sv = [("MCAgg", r["violated"], r["log"])] if r["violated"] else []
    return finish(ctx, {"value", "ok_on_reject", "ok_on_semantic_err", "err_on_defined", "profile_diff", "panic", "budget"}, [r, semr], f, s,
                  "every argument list of length 0..%d over the pool {-7,-2,0,3,12,18,Err} (TLC, exhaustive, all orders) with the specification's own result, in every evaluator and alias; boundary-value lists (exhaustive up to length %d, seeded random up to length 8) against the reference interpreter; non-trivial = lists with >= 2 arguments" % (maxlen, 2 if ctx.quick() else 3),
                  extra={"exhaustive": True, "invariants_checked": ["C11FoldsAgree", "C11OrderIndependent"], "interpreter_vectors_reproduced": semr["selftest"]["vectors"]}, spec_viol=sv)

def c02(ctx):
    vlib.vocab_json()
    q = ctx.quick()
    # the loops of the evaluators as a state machine: bounded iteration counts, termination under weak fairness
    # (the arguments must be W-bit numbers for Lame's bound EuclidCap: NMax <= 2^(W-1) - 1 ... except that factorial arguments above the cap are the point)
    lcfg = "CONSTANTS W = %d\nNMax = %d\nSPECIFICATION Spec\nINVARIANT Bounded CapIndependent\nPROPERTY Terminates\nCHECK_DEADLOCK FALSE\n" % ((10, 300) if q else (12, 1500))
    lr = vlib.tlc("Loops", lcfg, "C02_loops", workers=8, timeout=3600)
    vlib.tlc_ok(lr, "Loops")
    log("TLC Loops: %d states, %d distinct, %.0fs%s" % (lr["states"], lr["distinct"], lr["wall_s"], (" VIOLATED " + str(lr["violated"])) if lr["violated"] else ""))
    # parser/tree-walk step counters on every token sequence; lexer progress on every short string
    models = run_grammar_models(ctx, EVALS, (lambda e: 4 if q else 6), ["StepsAgree", "StepsLinear", "EvalLinear"])
    models.update(run_lexer_models(ctx, EVALS, ["lit", "kw2"], 3 if q else 5, ["Progress", "TokenCount"]))
    def jobs(profile):
        js = replay_jobs(ctx, None, profile, models, {"assignments": 1, "full_placeholders": True, "event_every": 40, "event_cap": 3000, "profile": profile})
        for e in EVALS:
            if e == "cpx":
                continue
            for sh in range(2):
                js.append(base_job(ctx, "loops", "%s_loops_%s_%d" % (profile, e, sh), profile, e=e, shard=sh, nshards=2, event_every=7, event_cap=4000))
        js += deep_shape_jobs(ctx)(profile)
        return js
    f, s = run_jobs(ctx, jobs)
    sv = [(k, r["violated"], r["log"]) for k, r in list(models.items()) + [("Loops", lr)] if r["violated"]]
    return finish(ctx, {"budget", "hang"}, [lr] + list(models.values()), f, s,
                  "every looping construct (x!, ilog, w, gcd, lcm) x the extreme-argument pool (huge, non-finite, zero, negative, base <= e^(1/e), consecutive Fibonacci numbers) x nesting, per evaluator, plus every token sequence up to N with boundary placeholders and every short string; a call exceeding 4096+256*len counted steps (hook budget), hanging (watchdog) is a violation; CalcTrace asserts the recorded parser/tree-walk step counts equal the specification's exactly; non-trivial = inputs containing a loop construct or >= 2 tokens",
                  extra={"invariants_checked": ["Loops!Bounded", "Loops!CapIndependent", "Loops!Terminates (liveness, WF)", "StepsAgree", "StepsLinear", "EvalLinear", "Progress", "TokenCount"],
                         "exhaustive": True}, spec_viol=sv)

def c16(ctx):
    q = ctx.quick()
    cfg = ("CONSTANTS MaxCalls = %d\nThreads <- MCThreads\nKeys <- MCKeys\nSPECIFICATION CSpec\nINVARIANT Pure\nPROPERTY AppendOnly\nCONSTRAINT Bound\nCHECK_DEADLOCK FALSE\n" % (2 if q else 3))
    r = vlib.tlc("MCCalc", cfg, "C16_calc", workers=8, timeout=3 * 3600)
    vlib.tlc_ok(r, "MCCalc")
    log("TLC MCCalc: %d states, %d distinct, %.0fs%s" % (r["states"], r["distinct"], r["wall_s"], (" VIOLATED " + str(r["violated"])) if r["violated"] else ""))
    def jobs(profile):
        return [base_job(ctx, "history", "%s_hist" % profile, profile, n_seq=3000 if q else 100000, n_par=16000 if q else 400000, threads=16, event_cap=6000 if q else 30000, seed=ctx.seed, stall_s=300)]
    f, s = run_jobs(ctx, jobs)
    sv = [("MCCalc", r["violated"], r["log"])] if r["violated"] else []
    # the trace of one process must be validated in one piece (PureOK relates events to the isolated ones): no Reset between files, one chunk per file
    return finish(ctx, {"impure", "trace_pure"}, [r], f, s,
                  "a seeded pool of ~500 keys (five evaluators; Ok, Err and rejected inputs; the same expression with different placeholders incl. +0.0/-0.0, NaN, extremes) evaluated once each in a fresh process, then in a random sequential history and on 16 threads concurrently (every third call repeats the previous expression with another placeholder); every outcome must be bit-identical to the isolated one; CalcTrace!PureOK re-checks it on the recorded trace; non-trivial = distinct keys",
                  extra={"invariants_checked": ["Calc!Pure", "Calc!AppendOnly"]}, spec_viol=sv)

FEATPROBE = os.path.join(VERIF, "featprobe")

def c17(ctx):
    """every feature subset builds, exports exactly the selected items and behaves as the all-features build"""
    vlib.vocab_json()
    q = ctx.quick()
    beh = os.path.join(ctx.wd, "subsets.ndjson")
    r = vlib.tlc("Features", "INIT Init\nNEXT Next\nCHECK_DEADLOCK FALSE\nINVARIANT C17OrderStable C17Exports Emit\n", "C17_features", workers=2, beh_out=beh, timeout=600)
    vlib.tlc_ok(r, "Features")
    subsets = vlib.read_ndjson(beh)
    log("TLC Features: %d subsets%s" % (len(subsets), (" VIOLATED " + str(r["violated"])) if r["violated"] else ""))
    if len(subsets) != 31:
        raise ToolError("Features.tla did not enumerate the 31 subsets")
    # the corpus: the token sequences TLC enumerated (N=3/4), extreme literals, long superscript runs, the history keys
    models = run_grammar_models(ctx, EVALS, (lambda e: 3 if q else 4), [])
    binary, _ = vlib.build_harness("debug")
    corpus = os.path.join(ctx.wd, "corpus.tsv")
    job = os.path.join(ctx.wd, "corpus_job.json")
    json.dump({"mode": "corpus", "vocab": os.path.join(WORK, "vocab.json"), "behs": {e: m["beh_path"] for e, m in models.items()}, "corpus": corpus,
               "stats": os.path.join(ctx.wd, "corpus_stats.json"), "every": 3}, open(job, "w"))
    p = subprocess.run([binary, "run", job], stdout=subprocess.PIPE, stderr=subprocess.PIPE, text=True)
    if p.returncode != 0:
        raise ToolError("corpus generation failed: " + p.stderr[-500:])
    nlines = json.load(open(os.path.join(ctx.wd, "corpus_stats.json")))["lines"]
    all_feats = ["eval_f64", "eval_i64", "eval_decimal", "eval_complex", "eval_number"]
    def order(s):
        return (len(s["features"]), sorted(s["features"]))
    subsets.sort(key=order)
    if q:
        # 5 singletons + the full set + pairs/triples chosen to separate i64-present/absent and float-backed/absent
        want = [["eval_f64"], ["eval_i64"], ["eval_decimal"], ["eval_complex"], ["eval_number"], all_feats, ["eval_i64", "eval_number"], ["eval_f64", "eval_i64"],
                ["eval_decimal", "eval_number"], ["eval_complex", "eval_i64"], ["eval_f64", "eval_decimal", "eval_complex", "eval_number"]]
        subsets = [s for s in subsets if sorted(s["features"]) in [sorted(w) for w in want]]
    env = dict(os.environ, CARGO_NET_OFFLINE="true")
    findings = []
    vlib.point_at_repo()
    def build_and_run(feats, tdir):
        cmd = ["cargo", "build", "--offline", "--quiet", "--features", ",".join(feats), "--target-dir", tdir]
        b = subprocess.run(cmd, cwd=FEATPROBE, env=env, stdout=subprocess.PIPE, stderr=subprocess.STDOUT, text=True)
        if b.returncode != 0:
            return None, b.stdout[-1500:]
        o = subprocess.run([os.path.join(tdir, "debug", "featprobe"), corpus], stdout=subprocess.PIPE, stderr=subprocess.PIPE, text=True, timeout=600)
        res = {}
        for line in o.stdout.splitlines():
            i, c = line.split("\t", 1)
            res[int(i)] = c
        return res, ""
    tdir = os.path.join(FEATPROBE, "target")
    full, err = build_and_run(["full_default"], tdir)
    if full is None:
        raise ToolError("default (all-features) build of the probe failed: " + err)
    clines = open(corpus, encoding="utf-8").read().split("\n")
    evaluations, compared, fail_probes = len(full), 0, 0
    samples = []
    for s in subsets:
        feats = sorted(s["features"])
        if sorted(feats) == sorted(all_feats):
            continue
        res, err = build_and_run(feats, tdir)
        if res is None:
            findings.append({"cat": "subset_build", "e": "", "input": "--no-default-features --features " + ",".join(feats), "ph": "", "expected": "the crate compiles", "actual": err[-600:], "extra": {}})
            continue
        evaluations += len(res)
        for i, c in res.items():
            compared += 1
            if full.get(i) != c:
                e, x = clines[i].split("\t", 1)
                findings.append({"cat": "subset_behaviour", "e": e, "input": x, "ph": "features=" + ",".join(feats), "ph_show": "features=" + ",".join(feats),
                                 "expected": "as in the all-features build: %s" % full.get(i), "actual": c, "extra": {"features": feats}})
        # evaluators not selected must not have produced a line
        sel = set(s["evals"])
        for i in res:
            if clines[i].split("\t", 1)[0] not in sel:
                findings.append({"cat": "subset_export", "e": clines[i].split("\t", 1)[0], "input": "features=" + ",".join(feats), "ph": "", "expected": "not exported", "actual": "callable", "extra": {}})
                break
        # compile-fail probes: every unselected item must be absent
        for mf in all_feats:
            if mf in feats:
                continue
            c = subprocess.run(["cargo", "check", "--offline", "--quiet", "--features", ",".join(feats + ["want_" + mf]), "--target-dir", tdir], cwd=FEATPROBE, env=env,
                               stdout=subprocess.PIPE, stderr=subprocess.STDOUT, text=True)
            fail_probes += 1
            if c.returncode == 0:
                findings.append({"cat": "subset_export", "e": "", "input": "features=%s references %s" % (",".join(feats), mf), "ph": "", "expected": "does not compile (item not exported)", "actual": "compiles", "extra": {}})
        if len(samples) < 4:
            samples.append({"features": feats, "exports": s["exports"], "corpus_lines_evaluated": len(res)})
        log("subset %s: %d corpus lines identical to the all-features build" % (",".join(feats), len(res)))
    nviol = vlib.report("C17", findings)
    if r["violated"]:
        print("VIOLATION property=C17 replay=%s" % r["log"]); nviol += 1
    cov = {"evaluations": evaluations, "distinct_nontrivial": compared, "rule": "feature subsets enumerated by spec/Features.tla (%d of 31 in this tier) x a corpus of %d expressions (token sequences enumerated by TLC, extreme literals, superscript runs up to 40 digits, the history keys); each subset: cargo build --no-default-features --features <subset>, compile-fail probe for every unselected item, outcome of every corpus line compared bit for bit with the all-features build; non-trivial = (subset, corpus line) comparisons" % (len(subsets), nlines),
           "samples": samples or ["(none)"], "subsets_built": len(subsets), "compile_fail_probes": fail_probes, "states": r["distinct"], "transitions": r["states"],
           "invariants_checked": ["C17OrderStable", "C17Exports", "LevelsAreIndices"], "exhaustive": not q}
    vlib.write_evidence("C17", ctx.tier, ctx.seed, "fault_enumeration", cov, time.time() - ctx.t0, nviol, ["cargo's feature resolution; the probe crate references exactly the selected items"])
    return 1 if nviol else 0

def c18(ctx):
    q = ctx.quick()
    cfgt = "CONSTANTS EB = %d\nMB = %d\nW = %d\nINIT Init\nNEXT Next\nCHECK_DEADLOCK FALSE\nINVARIANT C18\n"
    runs = []
    for (eb, mb, w) in ([(4, 3, 6)] if q else [(4, 3, 6), (5, 4, 8), (5, 6, 10)]):
        r = vlib.tlc("NumberConv", cfgt % (eb, mb, w), "C18_conv_%d_%d_%d" % (eb, mb, w), workers=4, timeout=1800)
        vlib.tlc_ok(r, "NumberConv")
        log("TLC NumberConv EB=%d MB=%d W=%d: all %d bit patterns%s" % (eb, mb, w, r["distinct"], (" VIOLATED " + str(r["violated"])) if r["violated"] else ""))
        runs.append(r)
    def jobs(profile):
        return [base_job(ctx, "conv", "%s_conv" % profile, profile, random=1000000 if q else 100000000, seed=ctx.seed)]
    f, s = run_jobs(ctx, jobs)
    sv = [("NumberConv", r["violated"], r["log"]) for r in runs if r["violated"]]
    return finish(ctx, {"conversion"}, runs, f, s,
                  "Number::from(f64) on the structured boundary set (every power of two +-2 ulps in both signs, +-2^63 / 2^53 / 2^62 / 2^64 and 12 neighbours each side, halves, +-0, subnormals, NaNs with payloads, infinities) and seeded random bit patterns, Number::from(i64) on boundary and random values, against the predicate of spec/NumberConv.tla at W=64; non-trivial = distinct doubles that are integral, non-finite or >= 2^52 in magnitude",
                  extra={"invariants_checked": ["Lossless", "Canonical", "BitsKept", "NaNStaysNaN"], "toy_formats_exhaustive": [[4, 3, 6]] if q else [[4, 3, 6], [5, 4, 8], [5, 6, 10]]}, spec_viol=sv)

def c19(ctx):
    q = ctx.quick()
    vlib.vocab_json()
    # the literal grammar of the specification on every short string over digits, point, i and sign characters
    ALPHABETS["num19"] = ["0", "1", "9", ".", "i", "-", "+"]
    models = run_lexer_models(ctx, EVALS, ["num19"], 4 if q else 6, ["LiteralForm", "Progress"])
    def jobs(profile):
        js = replay_jobs(ctx, None, profile, models, {"assignments": 1, "event_every": 30, "event_cap": 3000, "profile": profile})
        js.append(base_job(ctx, "literals", "%s_lit" % profile, profile, random=3000 if q else 300000, maxlen=5 if q else 7, seed=ctx.seed))
        return js
    f, s = run_jobs(ctx, jobs)
    sv = [(k, r["violated"], r["log"]) for k, r in models.items() if r["violated"]]
    return finish(ctx, {"literal", "roundtrip", "value", "ok_on_reject", "err_on_defined", "ok_on_semantic_err"}, list(models.values()), f, s,
                  "literals: every string of length <= %d over {0,1,5,9,.}, digit runs of 15..400 digits with every position of the point, leading/trailing zeros, halfway cases - eval_f64/eval_complex must return the correctly rounded double (decided exactly with big-integer arithmetic), eval_i64 / eval_number / eval_decimal the exact value; print -> re-read round trip over boundary pools and seeded random bit patterns per type; every string of length <= K over {0,1,9,.,i,-,+} replayed against the specification's literal grammar; non-trivial = literals of >= 2 characters and every round trip" % (5 if q else 7),
                  extra={"invariants_checked": ["LiteralForm", "Progress"]}, spec_viol=sv)

def simple_model(ctx, module, cfg, name, beh=True):
    bp = os.path.join(ctx.wd, "beh_%s.ndjson" % name) if beh else None
    r = vlib.tlc(module, cfg, "%s_%s" % (ctx.prop, name), workers=4, beh_out=bp, timeout=3600)
    vlib.tlc_ok(r, module)
    r.update({"beh_path": bp, "e": "f64", "N": 0, "samples": []})
    log("TLC %s: %d states, %d behaviours%s" % (module, r["distinct"], r["beh"], (" VIOLATED " + str(r["violated"])) if r["violated"] else ""))
    return r

def c05(ctx):
    q = ctx.quick()
    vlib.vocab_json()
    fr = simple_model(ctx, "MCFloat", "INIT Init\nNEXT Next\nCHECK_DEADLOCK FALSE\nINVARIANT Total Emit\n", "fclass")
    models = run_grammar_models(ctx, ["f64"], (lambda e: 5 if q else 6), [])
    # beyond the bound: every context x bracketed piece, and every two pieces joined by a binary operator (a*b - c*d, ...)
    models.update(run_compose_models(ctx, ["f64"], 3 if q else 4, 3 if q else 4))
    models.update(run_compose_models(ctx, ["f64"], 3, 3 if q else 4, tag="join", mode="join"))
    def jobs(profile):
        js = replay_jobs(ctx, None, profile, models, {"assignments": 1, "boundary_pool": True, "full_placeholders": True, "max_assign": 600 if q else 8000,
                                                        "event_every": 500, "event_cap": 2000, "nontrivial_min_ops": 1, "profile": profile, "scope": SCOPE_C05})
        js += replay_jobs(ctx, None, profile + "_fc", {"fclass": fr}, {"profile": profile, "event_every": 0})
        js += chain_jobs(ctx, ["f64"])(profile)
        js += cpx_fn_jobs(ctx, profile, e="f64", only_functions=SCOPE_C05["fns"])      # the functions of C05's statement on the argument samples of C10
        return js
    f, s = run_jobs(ctx, jobs)
    sv = [(k, r["violated"], r["log"]) for k, r in list(models.items()) + [("MCFloat", fr)] if r["violated"]]
    if any(x.get("cat") == "spec_table" for x in f):
        raise ToolError("FloatSem.tla disagrees with the host IEEE arithmetic: %s" % [x for x in f if x.get("cat") == "spec_table"][:2])
    return finish(ctx, {"value", "err_on_defined", "ok_on_semantic_err", "profile_diff"}, [fr] + list(models.values()), f, s,
                  "eval_f64 bit for bit against the reference tree evaluation with host IEEE operations: every token sequence up to N with exhaustive assignment of the boundary literal pool (subnormal and huge digit strings, 2^53 neighbours, halves) x placeholders NaN/+-inf/-0/extremes; every pair of IEEE classes x operator of spec/FloatSem.tla with several representatives each; an Err from an arithmetic tree is a violation; non-trivial = inputs with >= 1 operator",
                  extra={"invariants_checked": ["FloatSem!NeverErr", "NaNPropagates", "NegOfZeroIsNegZero", "DivByZeroIsInf", "FmodSignOfDividend", "Commutes"]}, spec_viol=sv)

def c07(ctx):
    q = ctx.quick()
    return grammar_check(ctx, {"value", "ok_on_semantic_err", "err_on_defined", "profile_diff", "panic", "abort"}, {"*": 5}, {"*": 6},
                         {"assignments": 1, "boundary_pool": True, "full_placeholders": True, "max_assign": 700 if q else 8000,
                          "event_every": 500, "event_cap": 2000, "nontrivial_min_ops": 1, "scope": SCOPE_C07}, evals=["dec"], invs=[], compose={"quick": (4, 3), "thorough": (4, 4), "chains": {"quick": (6, 8, 40), "thorough": (200, 10, 60)}, "join": {"quick": (3, 3), "thorough": (3, 4)}},
                         sem={"dec": {"quick": (2, 1, 3, 3), "thorough": (2, 2, 4, 1)}, "invs": ("C07Exact",)}, extra_jobs=(lambda profile: chain_jobs(ctx, ["dec"])(profile) + cpx_fn_jobs(ctx, profile, e="dec", only_functions=SCOPE_C07["fns"])))

def jux_jobs(ctx, evals):
    """implicit products beyond the token bound (every left factor x right factor x suffix x operator to the left, also inside brackets of
    each kind): every call is an event the trace specification judges - verdict, syntax tree, step counts"""
    return lambda profile: ([base_job(ctx, "juxcorpus", "%s_jux_%s" % (profile, e), profile, e=e, event_every=1, event_cap=100000) for e in evals] if profile == "debug" else [])

def chain_jobs(ctx, evals):
    """long left-leaning chains of one precedence level (30-70 terms): grouping by associativity beyond any token bound"""
    n = 300 if ctx.quick() else 20000
    return lambda profile: [base_job(ctx, "chains", "%s_chains_%s" % (profile, e), profile, e=e, n=n, seed=ctx.seed, event_every=25, event_cap=60) for e in evals]

def cpx_fn_jobs(ctx, profile, _memo={}, e="cpx", only_functions=None):
    """the function sweep of C10 restricted to one evaluator (every spelling on the argument samples, the boundary grids, powers of negative
    real bases), optionally to the functions a statement names"""
    if "r" not in _memo:
        vlib.vocab_json()
        _memo["r"] = simple_model(ctx, "MCVocab", "INIT Init\nNEXT Next\nCHECK_DEADLOCK FALSE\nINVARIANT Spelled ConstSpelled NeedsParen Emit\n", "vocab")
    extra = {"only_functions": only_functions} if only_functions else {}
    return [dict(base_job(ctx, "replay", "%s_%sfn_%d" % (profile, e, sh), profile, beh=_memo["r"]["beh_path"], e="f64", shard=sh, nshards=4, only_evaluator=e,
                          samples_per_pair=100 if ctx.quick() else 10000, event_every=0, event_cap=0, **extra)) for sh in range(4)]

def c08(ctx):
    q = ctx.quick()
    return grammar_check(ctx, {"value", "ok_on_semantic_err", "err_on_defined", "ok_on_reject"}, {"*": 5}, {"*": 6},
                         [{"assignments": 3, "all_functions": True, "each_function": True, "cpx_generic": True, "full_placeholders": False, "event_every": 300, "event_cap": 2000, "nontrivial_min_ops": 1},
                          {"assignments": 2, "event_every": 300, "event_cap": 1000, "nontrivial_min_ops": 1}],
                         evals=["cpx"], invs=[], lexer={"alphabets": ["lit", "kw2"], "k_quick": 3, "k_thorough": 5},
                         extra_jobs=lambda profile: [base_job(ctx, "fnpairs", "%s_pairs_cpx" % profile, profile, e="cpx", event_every=40, event_cap=600)] + cpx_fn_jobs(ctx, profile),
                         sem={"dec": {"quick": (1, 1, 4, 1), "thorough": (1, 1, 7, 1)}, "invs": ("C08Exact",)})

def c10(ctx):
    q = ctx.quick()
    vlib.vocab_json()
    vr = simple_model(ctx, "MCVocab", "INIT Init\nNEXT Next\nCHECK_DEADLOCK FALSE\nINVARIANT Spelled ConstSpelled NeedsParen Emit\n", "vocab")
    def jobs(profile):
        js = []
        for sh in range(8):
            js.append(dict(base_job(ctx, "replay", "%s_fn_%d" % (profile, sh), profile, beh=vr["beh_path"], e="f64", shard=sh, nshards=8, samples_per_pair=200 if q else 20000,
                                    event_every=50, event_cap=1500)))
        js += [base_job(ctx, "fnpairs", "%s_pairs_%s" % (profile, e), profile, e=e, event_every=40, event_cap=600) for e in EVALS]
        return js
    f, s = run_jobs(ctx, jobs)
    sv = [("MCVocab", vr["violated"], vr["log"])] if vr["violated"] else []
    return finish(ctx, {"value", "err_on_defined", "ok_on_semantic_err", "ok_on_reject", "profile_diff"}, [vr], f, s,
                  "every (evaluator, spelling) pair, constant and postfix operator enumerated by spec/MCVocab.tla x argument samples over the domain (edges, halves, integers, large / tiny / negative values, seeded random at five scales): exact functions bit- and variant-exact, the others within 1e-9 relative of the host math library and closed forms, Lambert W by its defining identity, non-integer factorial also by the recurrence, eval_i64 real-valued functions within 1; non-trivial = every (pair, argument) call",
                  extra={"invariants_checked": ["Spelled", "ConstSpelled", "NeedsParen", "Vocab!ReadmeAgrees", "Vocab!PrefixFree"], "pairs": vr["beh"], "exhaustive": True}, spec_viol=sv)

def c15(ctx):
    """the evaluators agree on their common sub-language: one rendering, two evaluators"""
    q = ctx.quick()
    vlib.vocab_json()          # also checks spec/Common.tla's ASSUMEs (sub-languages are common, number and f64 share one vocabulary)
    # spec: the same text is the same expression in every evaluator (every short string), the integer clause at word size W
    lex = run_lexer_models(ctx, EVALS, ["lit", "kw2", "kw3"], 3 if q else 4, ["CommonSyntax", "CommonValue"])
    semr = semantic_models(ctx, 6 if q else 8, ("C15IntNum", "C06Exact", "C09IntegerWhenFits"))
    models = run_grammar_models(ctx, ["i64", "num", "dec"], (lambda e: 5 if q else 6), [])
    vr = simple_model(ctx, "MCVocab", "INIT Init\nNEXT Next\nCHECK_DEADLOCK FALSE\nINVARIANT Spelled ConstSpelled NeedsParen Emit\n", "vocab")
    def jobs(profile):
        js = []
        for pair, e, ma in [("i64-num", "i64", 40 if q else 400), ("num-f64", "num", 24 if q else 200), ("dec-f64", "dec", 40 if q else 400)]:
            m = models[e]
            for sh in range(4):
                js.append(base_job(ctx, "cross", "%s_%s_%d" % (profile, pair, sh), profile, pair=pair, beh=m["beh_path"], shard=sh, nshards=4, max_assign=ma,
                                   event_every=300, event_cap=1500))
        for sh in range(2):
            js.append(base_job(ctx, "cross", "%s_cpx_%d" % (profile, sh), profile, pair="cpx-f64", beh=vr["beh_path"], shard=sh, nshards=2, samples_per_pair=150 if q else 20000, event_every=50, event_cap=1500))
        for sh in range(4):
            js.append(base_job(ctx, "cross", "%s_numvocab_%d" % (profile, sh), profile, pair="num-f64-vocab", beh=vr["beh_path"], shard=sh, nshards=4, event_every=200, event_cap=1000))
        js.append(base_job(ctx, "cross", "%s_cpxops" % profile, profile, pair="cpx-f64-ops", samples_per_pair=150 if q else 20000, event_every=50, event_cap=1500))
        # character level: every short string of eval_number's lexer models (white space of every kind, also inside literals and names) in both clauses
        for an in ["lit", "kw2", "kw3"]:
            js.append(base_job(ctx, "cross", "%s_chars_%s" % (profile, an), profile, pair="chars", beh=lex["lex_num_%s" % an]["beh_path"], event_every=100, event_cap=600))
        return js
    f, s = run_jobs(ctx, jobs)
    allm = list(lex.values()) + list(models.values()) + [vr, semr]
    sv = [(r.get("name", "?"), r["violated"], r["log"]) for r in allm if r["violated"]]
    return finish(ctx, {"cross_int", "cross_float", "cross_complex", "cross_decimal"}, allm, f, s,
                  "one rendering, two evaluators, both results from the real code; the reference interpreter only decides the scope of each clause. "
                  "i64-num: every integer-expression token sequence up to N (spec/Common.tla IntLang) x the integer boundary pool x placeholders incl. i64::MIN/MAX - eval_i64 Ok(v) requires eval_number Integer(v); "
                  "num-f64: every token sequence of the shared grammar up to N x literal pool x placeholders, and every function / constant / postfix operator of the shared vocabulary on a signed mixed Integer/Float pool (one argument, every ordered pair, every list of up to three) - when all intermediates are finite, < 2^53, never -0 and no Integer^negative Integer occurs, the numeric values must be identical; "
                  "cpx-f64: every operator and every function both offer, applied directly to real operands (edges, 1e-9 .. 1e300, seeded random at six scales) - inside the real domain (eval_f64 finite) within 1e-9; "
                  "dec-f64: every token sequence over + * / ^ sqrt exp ln pow up to N x positive literal pool, well-conditioned by a first-order error bound - within 1e-9 relative; non-trivial = in-scope comparisons with >= 1 operator",
                  extra={"invariants_checked": ["Common!CommonOffered", "Common!SameVocabulary", "Common!AliasesShared", "MCLexer!CommonSyntax", "MCLexer!CommonValue", "MCSem!C15IntNum"],
                         "interpreter_vectors_reproduced": semr["selftest"]["vectors"], "exhaustive": True}, spec_viol=sv)

CHECKS = {"C15": c15, "C10": c10, "C05": c05, "C07": c07, "C08": c08, "C18": c18, "C19": c19, "C17": c17, "C16": c16, "C02": c02, "C11": c11, "C06": c06, "C09": c09, "C01": c01, "C03": c03, "C04": c04, "C12": c12, "C13": c13, "C14": c14, "C20": c20}

def replay(prop, path):
    """Re-run the single call of a recorded finding against the current tree: exit 1 (VIOLATION line) when the call still gives the
    recorded violating outcome, exit 0 when it no longer does."""
    f = json.load(open(path))
    prof = f.get("profile") or "debug"
    prof = "release" if prof == "release" else ("unopt" if prof.startswith("unopt") else "debug")
    binary, _ = vlib.build_harness(prof)
    cmd = [binary, "one-thread" if prof == "unopt" else "one", f["e"], f["input"]] + ([f["ph"]] if f.get("ph") and ":" in str(f.get("ph")) else [])
    p = subprocess.run(cmd, stdout=subprocess.PIPE, stderr=subprocess.PIPE, text=True)
    got = p.stdout.strip().rsplit(" ticks=", 1)[0] if p.stdout.strip() else "process died: rc=%s %s" % (p.returncode, p.stderr.strip()[-200:])
    print("input:    eval_%s(%r, %s)" % (f["e"], f["input"], f.get("ph_show", f.get("ph"))))
    print("expected:", f.get("expected"))
    print("recorded:", f.get("actual"))
    print("now:     ", got)
    recorded = str(f.get("actual", ""))
    same = recorded.startswith(got) or (p.returncode != 0 and ("abort" in recorded or "PANIC" in recorded))
    if same:
        print("VIOLATION property=%s replay=%s" % (prop, path))
        return 1
    print("the recorded outcome is no longer produced")
    return 0
