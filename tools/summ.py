#!/usr/bin/env python3
"""summarise findings of the last run of a check: tools/summ.py C03"""
import sys, os, json, glob, re, collections
wd=os.path.join(os.path.dirname(os.path.dirname(os.path.abspath(__file__))),'work',sys.argv[1])
by=collections.defaultdict(list)
for p in glob.glob(wd+'/findings_*.ndjson'):
    for l in open(p):
        try: f=json.loads(l)
        except: continue
        shape=re.sub(r'\d+(\.\d+)?','N',f['input'])
        by[(f['cat'],f['e'],f.get('profile'))].append(f)
for k in sorted(by):
    fs=by[k]
    print(k,len(fs))
    seen=set();n=0
    for f in fs:
        sh=f['actual'][:40]
        if sh in seen: continue
        seen.add(sh);n+=1
        print('    %r ph=%s exp=%s act=%s'%(f['input'],f.get('ph_show'),f['expected'][:70],f['actual'][:110]))
        if n>=int(sys.argv[2]) if len(sys.argv)>2 else n>=4: break
