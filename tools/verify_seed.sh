#!/bin/bash
# verify a seeded change delivered in /tmp/mut_<name>: tools/verify_seed.sh <name> <property> 
# (scratch worktree outside /repo and /verif; removed afterwards)
set -u
name=$1; prop=$2; src=${3:-/tmp/mut_$name}
wt=/tmp/vs_$name
git -C /repo worktree remove --force $wt >/dev/null 2>&1
git -C /repo worktree add -q --detach $wt HEAD || exit 2
cd $wt
res() { echo "$1: $2"; }
git apply --check $src/patch.diff || { echo "patch does not apply"; git -C /repo worktree remove --force $wt; exit 1; }
git apply $src/patch.diff
t1=$(cargo test --offline 2>&1 | grep "^test result:" | head -1)
b1=$(cargo build --offline --features verif_hooks 2>&1 | tail -1)
mkdir -p tests; cp $src/demo.rs tests/demo.rs
d1=$(cargo test --offline --test demo 2>&1 | grep "^test result:" | head -1)
git apply -R $src/patch.diff
d0=$(cargo test --offline --test demo 2>&1 | grep "^test result:" | head -1)
res "suite with change" "$t1"; res "hooks build" "$b1"; res "demo with change" "$d1"; res "demo without change" "$d0"
cd /; git -C /repo worktree remove --force $wt
mkdir -p /verif/seeded/$name
cp $src/patch.diff $src/demo.rs /verif/seeded/$name/
[ -f $src/notes.md ] && cp $src/notes.md /verif/seeded/$name/notes.md
python3 - "$name" "$prop" "$t1" "$d1" "$d0" <<'PY'
import json,sys
name,prop,t1,d1,d0=sys.argv[1:6]
json.dump({"id":name,"property":prop,"suite_with_change":t1,"demo_with_change":d1,"demo_without_change":d0,
 "verified":("531 passed" in t1) and ("failed" in d1 and " 0 failed" not in d1) and (" 0 failed" in d0),
 "ran":["git apply patch.diff in a scratch worktree of /repo HEAD","cargo test --offline","cargo build --offline --features verif_hooks","cargo test --offline --test demo (with and without the change)"]},
 open('/verif/seeded/%s/meta.json'%name,'w'),indent=1)
PY
cat /verif/seeded/$name/meta.json | grep verified
