//! C17 probe: built once per feature subset.  Exports: the selected eval_* functions (and Number with
//! eval_number, ParseError always) must exist - referenced below under the same cfg; the `want_*` features
//! reference an item unconditionally, so that building with want_X but without X must fail to compile.
//! Behaviour: evaluates the corpus (lines `evaluator<TAB>expression`) and prints one canonical outcome per line.
#![allow(unused_imports, dead_code)]
use std::io::{BufRead, Write};
use std::panic::{catch_unwind, AssertUnwindSafe};
use string_calculator::ParseError;

fn fb(x: f64) -> String { if x.is_nan() { "nan".into() } else { format!("{:016x}", x.to_bits()) } }
fn show<T>(r: std::thread::Result<Result<T, ParseError>>, f: impl Fn(&T) -> String) -> String {
    match r { Ok(Ok(v)) => format!("ok:{}", f(&v)), Ok(Err(e)) => format!("err:{:?}", e).replace(char::from(9), " ").replace(char::from(10), " "), Err(_) => "panic".into() }
}

#[cfg(feature = "want_eval_f64")]
fn _want_f64() { let _ = string_calculator::eval_f64; }
#[cfg(feature = "want_eval_i64")]
fn _want_i64() { let _ = string_calculator::eval_i64; }
#[cfg(feature = "want_eval_decimal")]
fn _want_dec() { let _ = string_calculator::eval_decimal; }
#[cfg(feature = "want_eval_complex")]
fn _want_cpx() { let _ = string_calculator::eval_complex; }
#[cfg(feature = "want_eval_number")]
fn _want_num() { let _ = string_calculator::eval_number; let _ = string_calculator::Number::Integer(0); }

fn eval_line(e: &str, x: &str) -> Option<String> {
    let s = x.to_string();
    match e {
        #[cfg(feature = "eval_f64")]
        "f64" => Some(show(catch_unwind(AssertUnwindSafe(|| string_calculator::eval_f64(s, 3.0))), |v| format!("f64:{}", fb(*v)))),
        #[cfg(feature = "eval_i64")]
        "i64" => Some(show(catch_unwind(AssertUnwindSafe(|| string_calculator::eval_i64(s, 3))), |v| format!("i64:{}", v))),
        #[cfg(feature = "eval_decimal")]
        "dec" => Some(show(catch_unwind(AssertUnwindSafe(|| string_calculator::eval_decimal(s, rust_decimal::Decimal::new(3, 0)))), |v| format!("dec:{}e-{}", v.mantissa(), v.scale()))),
        #[cfg(feature = "eval_complex")]
        "cpx" => Some(show(catch_unwind(AssertUnwindSafe(|| string_calculator::eval_complex(s, num_complex::Complex::new(3.0, 0.0)))), |v| format!("cpx:{},{}", fb(v.re), fb(v.im)))),
        #[cfg(feature = "eval_number")]
        "num" => Some(show(catch_unwind(AssertUnwindSafe(|| string_calculator::eval_number(s, string_calculator::Number::Integer(3)))), |v| match v {
            string_calculator::Number::Integer(i) => format!("Int:{}", i), string_calculator::Number::Float(x) => format!("Flt:{}", fb(*x)) })),
        _ => None,
    }
}

fn main() {
    std::panic::set_hook(Box::new(|_| {}));
    let args: Vec<String> = std::env::args().collect();
    let f = std::io::BufReader::new(std::fs::File::open(&args[1]).expect("corpus"));
    let out = std::io::stdout();
    let mut w = std::io::BufWriter::new(out.lock());
    for (i, line) in f.lines().enumerate() {
        let line = line.unwrap();
        let mut it = line.splitn(2, '\t');
        let (e, x) = (it.next().unwrap_or(""), it.next().unwrap_or(""));
        if let Some(r) = eval_line(e, x) { let _ = writeln!(w, "{}\t{}", i, r); }
    }
}
