#![allow(dead_code)]
mod vocab; mod tree; mod val; mod call; mod render; mod refsem; mod expect; mod engine; mod meta; mod agg;
mod ast; mod loops; mod history; mod conv; mod fclass; mod functions; mod cross;

use engine::*;
use serde_json::{json, Value};
use std::io::{BufRead, Write};

fn open_out(job: &Value, profile: &str) -> Out {
    let f = |k: &str| std::io::BufWriter::new(std::fs::OpenOptions::new().create(true).append(true).open(job[k].as_str().unwrap()).unwrap());
    let hb = job["hb"].as_str().map(|p| std::fs::OpenOptions::new().create(true).write(true).open(p).unwrap());
    let unspec = job["unspec"].as_str().map(|p| std::io::BufWriter::new(std::fs::OpenOptions::new().create(true).append(true).open(p).unwrap()));
    Out { findings: f("out"), events: f("events"), hb, unspec, stats: Stats::default(),
          event_every: job["event_every"].as_u64().unwrap_or(0), event_cap: job["event_cap"].as_u64().unwrap_or(0), profile: profile.to_string(),
          scope: Scope::from_job(job),
          vocab_for_events: if job["parser_events"].as_bool().unwrap_or(false) {
              call::RECORD_EVENTS.store(true, std::sync::atomic::Ordering::Relaxed);
              job["vocab"].as_str().map(vocab::Vocab::load)
          } else { None },
          cur_file: if matches!(job["mode"].as_str(), Some("loops") | Some("agg") | Some("fnpairs") | Some("nearmiss")) { job["hb"].as_str().map(|h| format!("{}.input", h)) } else { None } }
}

fn write_stats(job: &Value, out: &mut Out, done: bool) {
    let s = &out.stats;
    let v = json!({"done": done, "items": s.items, "calls": s.calls, "compared": s.compared, "matched": s.matched, "not_asserted": s.not_asserted,
        "not_asserted_rules": s.not_asserted_rules, "findings": s.findings, "by_cat": s.by_cat, "distinct": s.distinct.len(), "nontrivial": s.nontrivial.len(),
        "events": s.events, "max_ticks_ratio": s.max_ticks_ratio, "max_ticks": s.max_ticks, "samples": s.samples, "metamorphic_pairs": s.metamorphic_pairs, "trees_compared": s.trees_compared,
        "profile": out.profile});
    let mut f = std::fs::OpenOptions::new().create(true).append(true).open(job["stats"].as_str().unwrap()).unwrap();
    let _ = writeln!(f, "{}", v);
    let _ = out.findings.flush();
    let _ = out.events.flush();
    if let Some(w) = &mut out.unspec { let _ = w.flush(); }
}

fn profile_name() -> &'static str { if cfg!(debug_assertions) { "debug" } else { "release" } }
// (the `unopt` profile reports itself as "debug": it differs from it only in the optimisation level)

fn run_replay(job: &Value) {
    let v = vocab::Vocab::load(job["vocab"].as_str().unwrap());
    let e = job["e"].as_str().unwrap().to_string();
    let shard = job["shard"].as_u64().unwrap_or(0);
    let nshards = job["nshards"].as_u64().unwrap_or(1);
    let start = job["start"].as_u64().unwrap_or(0);
    let nasg = job["assignments"].as_u64().unwrap_or(2) as usize;
    let min_ops = job["nontrivial_min_ops"].as_u64().unwrap_or(2) as usize;
    let full_ph = job["full_placeholders"].as_bool().unwrap_or(false);
    let allfns = job["all_functions"].as_bool().unwrap_or(false);
    let mut out = open_out(job, profile_name());
    let pols: Vec<render::Policy> = (0..nasg).map(|k| {
        let mut p = if allfns { render::Policy::all_fns(&e, k * 3 + 1) } else { render::Policy::reveal(&e, k * 3) };
        if k == 1 { p.spaces = true; }
        p
    }).collect();
    // eval_complex: one more assignment whose first literal is the bare imaginary unit (`i` directly before a bracket or a name)
    let mut pols = pols;
    if e == "cpx" && !allfns { pols.push(render::Policy::reveal(&e, 7)); }
    let mut phs = placeholder_pool(&e, full_ph);
    if job["cpx_generic"].as_bool().unwrap_or(false) && e == "cpx" {
        // generic complex operands: both parts non-zero, moderate magnitude (C08)
        // ... and nearly real / nearly imaginary ones (the small component must survive), small and large moduli
        phs = [(1.5, -2.0), (0.3, 0.7), (-1.2, 0.4), (2.5, 1.5), (-0.8, -1.1), (0.05, 3.0),
               (4.0, 5e-8), (2.0, -3e-7), (3e-8, 2.0), (-5e-8, -0.5), (0.7, 1e-5), (1e-5, 1e-5), (-3e-6, 2e-6), (250.0, -40.0), (1e-3, 0.4), (30.0, 1e-7),
               // exactly on the axes (an implementation may take a real-arithmetic detour there)
               (-2.0, 0.0), (-0.5, 0.0), (-3.0, 0.0), (0.0, 2.0), (0.0, -1.0), (2.0, 0.0)].iter().map(|(a, b)| val::Val::C(num_complex::Complex::new(*a, *b))).collect();
    }
    let boundary = job["boundary_pool"].as_bool().unwrap_or(false);
    let max_assign = job["max_assign"].as_u64().unwrap_or(512) as usize;
    let only_kinds: Vec<String> = job["only_kinds"].as_array().map(|a| a.iter().filter_map(|x| x.as_str().map(String::from)).collect()).unwrap_or_default();
    let extras: Vec<String> = job["extras"].as_array().map(|a| a.iter().filter_map(|x| x.as_str().map(String::from)).collect()).unwrap_or_default();
    let samples: Vec<Vec<String>> = job["samples"].as_array().map(|a| a.iter().map(|s| s.as_array().unwrap().iter().map(|k| k.as_str().unwrap().to_string()).collect()).collect()).unwrap_or_default();
    let thorough = job["tier"].as_str() == Some("thorough");
    let each_fn = job["each_function"].as_bool().unwrap_or(false);
    let nsuffix = job["reject_suffixes"].as_u64().unwrap_or(0) as usize;
    let mut rng = Rng(job["seed"].as_u64().unwrap_or(1).wrapping_mul(0x9E3779B97F4A7C15) ^ shard);
    let file = std::io::BufReader::new(std::fs::File::open(job["beh"].as_str().unwrap()).unwrap());
    for (i, line) in file.lines().enumerate() {
        let i = i as u64;
        if i % nshards != shard || i < start { continue; }
        let line = line.unwrap();
        let bv: Value = match serde_json::from_str(&line) { Ok(x) => x, Err(_) => continue };
        out.heartbeat(i);
        out.stats.items += 1;
        if bv["kind"].as_str() == Some("vocab") && job["only_evaluator"].as_str().map_or(false, |x| bv["e"].as_str() != Some(x)) { continue; }
        if bv["kind"].as_str() == Some("vocab") { if let Some(only) = job["only_functions"].as_array() { if !only.iter().any(|f| f.as_str() == bv["item"]["fn"].as_str()) { continue; } } }
        if bv["kind"].as_str() == Some("vocab") { out.heartbeat(i); out.stats.items += 1; functions::replay_item(&mut out, &bv, &mut rng, job["samples_per_pair"].as_u64().unwrap_or(200) as usize); continue; }
        if bv["kind"].as_str() == Some("fclass") { out.heartbeat(i); out.stats.items += 1; fclass::replay(&mut out, &bv); continue; }
        if bv.get("chars").is_some() {
            let (text, outs) = replay_string(&mut out, &e, &bv, &phs, i);
            if extras.iter().any(|x| x == "spellings") { meta::whitespace_only(&mut out, &e, &text, &outs, &mut rng, thorough); }
            // a string with a foreign character stands for many: further variants with other foreign characters
            if bv["chars"].as_array().map_or(false, |a| a.iter().any(|c| c.as_str() == Some("OTHER"))) {
                let nvar = if thorough { vocab::FOREIGN.len() as u64 - 1 } else { job["foreign_variants"].as_u64().unwrap_or(7) };
                let step = (vocab::FOREIGN.len() as u64 / (nvar + 1)).max(1);
                for k in 1..=nvar { replay_string(&mut out, &e, &bv, &phs, i + k * step * 25 + k); }
                // and every foreign character that resembles, or is encoded next to, a neighbour of the foreign position
                let cs: Vec<String> = bv["chars"].as_array().unwrap().iter().map(|c| c.as_str().unwrap_or("").to_string()).collect();
                for f in related_foreign(&cs) { replay_string_with(&mut out, &e, &bv, &phs, i, Some(f)); }
            }
            continue;
        }
        let b = parse_beh(&bv);
        if !b.kinds.iter().all(|k| k == "bad" || v.has_kind(&e, k)) { continue; }
        if !only_kinds.is_empty() && !b.kinds.iter().all(|k| only_kinds.contains(k)) { continue; }
        if boundary {
            // exhaustive assignment of the boundary pool to the literal positions of accepted sequences
            if b.verdict != "accept" || !b.renderable || b.numnum { continue; }
            let nlit = b.kinds.iter().filter(|k| *k == "num").count();
            let lits = boundary_lits(&e);
            // composites (spec/MCCompose.tla) are many: a seeded sample of the assignments of each
            let cap = if bv.get("comp").is_some() { job["compose_assign"].as_u64().unwrap_or(24) as usize } else { max_assign };
            let asgs = assignments(nlit, lits.len(), cap, &mut rng);
            let bp: Vec<render::Policy> = asgs.into_iter().map(|a| { let mut p = render::Policy::reveal(&e, 0); p.lits = lits.clone(); p.fixed = a; p.sups = vec!["2".into(), "3".into(), "0".into(), "1".into(), "63".into(), "64".into()]; p }).collect();
            replay_base(&mut out, &v, &e, &b, &bp, &phs, min_ops);
            continue;
        }
        // every spelling of the class of the first function token (vocabulary properties: C08, C10, C13)
        if each_fn && b.verdict == "accept" {
            if let Some(k) = b.kinds.iter().find(|k| matches!(k.as_str(), "f1" | "f2" | "fv" | "fa")) {
                let n = v.keywords_of(&e, k).len();
                let ps: Vec<render::Policy> = (0..n).map(|i| { let mut p = render::Policy::all_fns(&e, i % 3); p.fn_first = Some(i); p }).collect();
                let used = replay_base(&mut out, &v, &e, &b, &ps, &phs, min_ops);
                if extras.iter().any(|x| x == "spellings") { for (r, outs) in used.iter() { meta::spellings(&mut out, &v, &e, &b, r, outs, &ps[0], &mut rng, false); } }
                continue;
            }
        }
        let used = replay_base(&mut out, &v, &e, &b, &pols, &phs, min_ops);
        if nsuffix > 0 { replay_reject_suffixes(&mut out, &v, &e, &b, &pols[0], &mut rng, nsuffix); }
        // mutation-directed inputs (C01): one token of a rendered input deleted, duplicated, replaced or a stray token inserted -
        // mostly malformed, often long, with the non-ASCII spellings in the unread tail; the call only has to return
        let nmut = job["mutations"].as_u64().unwrap_or(0) as usize;
        if nmut > 0 { if let Some((r, _)) = used.first() { if r.pieces.len() >= 3 { mutate_and_call(&mut out, &e, &r.pieces, &mut rng, nmut); } } }
        for (k, (r, outs)) in used.iter().enumerate() {
            if extras.iter().any(|x| x == "jux") { meta::jux(&mut out, &e, &b, r, outs); }
            if extras.iter().any(|x| x == "spellings") { meta::spellings(&mut out, &v, &e, &b, r, outs, &pols[k.min(pols.len() - 1)], &mut rng, thorough); }
            if extras.iter().any(|x| x == "ans") { meta::placeholder_as_constant(&mut out, &e, &b, r, outs); }
            if extras.iter().any(|x| x == "subst") && k == 0 { meta::substitution(&mut out, &v, &e, &b, r, &samples, &pols[0]); }
        }
    }
    out.heartbeat(u64::MAX);
    write_stats(job, &mut out, true);
}

/// C15: one rendering, two evaluators (harness/src/cross.rs)
fn run_cross(job: &Value) {
    let v = vocab::Vocab::load(job["vocab"].as_str().unwrap());
    let pair = job["pair"].as_str().unwrap().to_string();
    let shard = job["shard"].as_u64().unwrap_or(0);
    let nshards = job["nshards"].as_u64().unwrap_or(1);
    let start = job["start"].as_u64().unwrap_or(0);
    let max_assign = job["max_assign"].as_u64().unwrap_or(64) as usize;
    let n = job["samples_per_pair"].as_u64().unwrap_or(200) as usize;
    let mut out = open_out(job, profile_name());
    let mut rng = Rng(job["seed"].as_u64().unwrap_or(1).wrapping_mul(0x9E3779B97F4A7C15) ^ (shard + 1315));
    if pair == "cpx-f64-ops" {
        out.heartbeat(0);
        cross::cpx_f64_operators(&mut out, &mut rng, n);
    } else {
        let file = std::io::BufReader::new(std::fs::File::open(job["beh"].as_str().unwrap()).unwrap());
        for (i, line) in file.lines().enumerate() {
            let i = i as u64;
            if i % nshards != shard || i < start { continue; }
            let bv: Value = match serde_json::from_str(&line.unwrap()) { Ok(x) => x, Err(_) => continue };
            out.heartbeat(i);
            out.stats.items += 1;
            if pair == "cpx-f64" { cross::cpx_f64_item(&mut out, &v, &bv, &mut rng, n); continue; }
            if pair == "num-f64-vocab" { cross::num_f64_item(&mut out, &bv); continue; }
            if pair == "chars" { cross::chars_item(&mut out, &v, &bv, i); continue; }
            let b = parse_beh(&bv);
            match pair.as_str() {
                "i64-num" => cross::i64_num(&mut out, &v, &b, &mut rng, max_assign),
                "num-f64" => { cross::num_f64(&mut out, &v, &b, &mut rng, max_assign, false); cross::num_f64(&mut out, &v, &b, &mut rng, (max_assign / 4).max(1), true); }
                "dec-f64" => cross::dec_f64(&mut out, &v, &b, &mut rng, max_assign),
                _ => {}
            }
        }
    }
    out.heartbeat(u64::MAX);
    write_stats(job, &mut out, true);
}

fn mutate_and_call(out: &mut Out, e: &str, pieces: &[String], rng: &mut Rng, n: usize) {
    const STRAY: [&str; 22] = [")", "(", ",", "⌋", "⌈", "⌉", "⌊", "@", "π", "°", "²", "!", "1.5", "pi", "e", "rad", "#", "é", "\u{2003}", "^", "-", "max("];
    let ph = call::default_placeholder(e);
    for _ in 0..n {
        let mut ps: Vec<String> = pieces.to_vec();
        let i = rng.below(ps.len());
        match rng.below(4) {
            0 => { ps.remove(i); }
            1 => { let x = ps[i].clone(); ps.insert(i, x); }
            2 => { ps[i] = STRAY[rng.below(STRAY.len())].to_string(); }
            _ => { ps.insert(i, STRAY[rng.below(STRAY.len())].to_string()); }
        }
        let text = ps.concat();
        if text.chars().count() > 256 { continue; }
        checked_call(out, e, &text, &ph, None, json!({"v": "unclaimed"}), true, &json!({"mutation_of": pieces.concat()}));
    }
}

fn run_agg(job: &Value) {
    let v = vocab::Vocab::load(job["vocab"].as_str().unwrap());
    let mut out = open_out(job, profile_name());
    let shard = job["shard"].as_u64().unwrap_or(0);
    let nshards = job["nshards"].as_u64().unwrap_or(1);
    let start = job["start"].as_u64().unwrap_or(0);
    let mut rng = Rng(job["seed"].as_u64().unwrap_or(1).wrapping_mul(0x9E3779B97F4A7C15) ^ (shard + 77));
    if let Some(e) = job["nested_e"].as_str() {
        agg::replay_nested(&mut out, &v, e);
    } else if let Some(e) = job["boundary_e"].as_str() {
        agg::replay_boundary(&mut out, &v, e, job["exhaustive_len"].as_u64().unwrap_or(2) as usize, job["random_lists"].as_u64().unwrap_or(200) as usize, &mut rng);
    } else {
        let file = std::io::BufReader::new(std::fs::File::open(job["beh"].as_str().unwrap()).unwrap());
        for (i, line) in file.lines().enumerate() {
            let i = i as u64;
            if i % nshards != shard || i < start { continue; }
            let bv: Value = match serde_json::from_str(&line.unwrap()) { Ok(x) => x, Err(_) => continue };
            out.heartbeat(i);
            out.stats.items += 1;
            agg::replay_vector(&mut out, &v, &bv, i);
        }
    }
    out.heartbeat(u64::MAX);
    write_stats(job, &mut out, true);
}

/// corpus for the feature-subset builds of C17: lines `evaluator<TAB>expression`
/// implicit products beyond the token bound: every kind of left and right factor, every suffix after the right factor, every operator
/// to the left, each also inside round, floor and ceiling brackets and as a function argument (the specification parses and judges them:
/// CalcTrace validates every one of these calls - verdict, tree, step counts, value on the small-integer fragment)
pub fn jux_corpus(v: &vocab::Vocab, e: &str) -> Vec<String> {
    let lefts: Vec<&str> = if v.has_kind(e, "lf") { vec!["2", "(2)", "abs(2)", "3!", "⌊2.5⌋", "⌈1.5⌉"] } else if v.has_kind(e, "bang") { vec!["2", "(2)", "abs(2)", "3!"] } else { vec!["2", "(2)", "abs(2)"] };
    let rights: Vec<&str> = if v.has_kind(e, "lf") { vec!["(3)", "abs(3)", "⌊3.5⌋", "3"] } else { vec!["(3)", "abs(3)", "3"] };
    let mut suffixes: Vec<&str> = vec!["", "^2", "²", "*5", "+1", "^2^3", "(4)"];
    if v.has_kind(e, "bang") { suffixes.extend(["!", "^2!", "!²"]); }
    if v.has_kind(e, "deg") { suffixes.extend(["°", "rad"]); }
    if v.has_kind(e, "mod") { suffixes.push("%2"); }
    if v.has_kind(e, "shl") { suffixes.extend(["<<1", "&6", "|1"]); }
    let mut out = Vec::new();
    for l in &lefts { for r in &rights {
        if *r == "3" && (*l == "2") { continue; }                 // two adjacent literals would merge
        for sfx in &suffixes { for pre in ["", "-", "6/", "2^", "1+", "2*"] {
            let s = format!("{}{}{}{}", pre, l, r, sfx);
            out.push(s.clone());
            // the same product inside brackets of each kind and as an argument (a bracket that is peeled or re-attached shows here)
            if (sfx.is_empty() || *sfx == "(4)" || *sfx == "!") && (pre.is_empty() || pre == "2^") {
                out.push(format!("({})", s));
                out.push(format!("abs({})", s));
                if v.has_kind(e, "lf") { out.push(format!("⌊{}⌋", s)); out.push(format!("⌈{}⌉", s)); out.push(format!("⌊{}⌋(2)", s)); }
            }
        } }
    } }
    out
}

fn run_juxcorpus(job: &Value) {
    let v = vocab::Vocab::load(job["vocab"].as_str().unwrap());
    let e = job["e"].as_str().unwrap().to_string();
    let mut out = open_out(job, profile_name());
    let ph = call::default_placeholder(&e);
    for (i, text) in jux_corpus(&v, &e).iter().enumerate() {
        out.heartbeat(i as u64);
        out.stats.items += 1;
        let (o, t) = call::call(&e, text, &ph);
        out.stats.calls += 1;
        out.note_ticks(text, &t);
        let key = h64(&("juxcorpus", &e, text)); out.stats.distinct.insert(key); out.stats.nontrivial.insert(key);
        if !o.returned() { out.finding("panic", &e, text, &ph, "Ok or Err", &o.show(), json!({})); }
        out.stats.events += 1;
        out.event(&e, text, &ph, &o, &t, json!({"v": "unclaimed"}), true);
    }
    out.heartbeat(u64::MAX);
    write_stats(job, &mut out, true);
}

fn run_corpus(job: &Value) {
    use std::io::Write;
    let v = vocab::Vocab::load(job["vocab"].as_str().unwrap());
    let mut w = std::io::BufWriter::new(std::fs::File::create(job["corpus"].as_str().unwrap()).unwrap());
    let every = job["every"].as_u64().unwrap_or(3);
    let mut n = 0u64;
    for (e, path) in job["behs"].as_object().unwrap() {
        let file = std::io::BufReader::new(std::fs::File::open(path.as_str().unwrap()).unwrap());
        for (i, line) in file.lines().enumerate() {
            let bv: Value = match serde_json::from_str(&line.unwrap()) { Ok(x) => x, Err(_) => continue };
            let b = parse_beh(&bv);
            if !b.renderable || b.numnum { continue; }
            if b.verdict != "accept" && (i as u64) % every != 0 { continue; }
            for off in [0usize, 4] {
                let pol = if off == 0 { render::Policy::reveal(e, off) } else { render::Policy::all_fns(e, off) };
                if let Some(r) = render::render(&v, e, &b.kinds, &pol) { let _ = writeln!(w, "{}\t{}", e, r.text); n += 1; }
            }
        }
    }
    // extreme literals and superscript runs, per evaluator
    let sup = |k: usize| vocab::sup_digits(&"1234567890".repeat(4)[..k]);
    let zsup = |k: usize| format!("{}{}", vocab::sup_digits(&"0".repeat(k)), "³");
    for e in ["f64", "i64", "dec", "cpx", "num"] {
        let mut xs: Vec<String> = vec![];
        for k in [1usize, 2, 10, 18, 19, 20, 21, 30, 40] { xs.push(format!("2{}", sup(k))); xs.push(format!("1{}", sup(k))); xs.push(format!("2{}", zsup(k))); xs.push(format!("(1+1){}!", zsup(k))); }
        for d in [1usize, 18, 19, 20, 28, 29, 30, 100, 400] { xs.push("9".repeat(d)); xs.push(format!("0.{}1", "0".repeat(d))); xs.push(format!("{}.5", "1".repeat(d))); xs.push(format!("0{}", "7".repeat(d))); }
        xs.extend(["1.2.3", "1..2", ".5.5", "1.", ".", "2pi", "1e5", "2i3", "i2", "π²", "3!!", "-2^2", "2^3!", "6/2(3)", "1 + 2\u{2003}* 3", "⌊2.5⌋⌈2.5⌉", "1<<63", "1<<64", "5%0", "1/0", "avg()", "min()", "max(1,2,)", "sgn(0)", "w(1)", "ilog(100,2)", "gcd(12,18)", "@@", "(@)", "@(2)"].iter().map(|s| s.to_string()));
        for x in xs { let _ = writeln!(w, "{}\t{}", e, x); n += 1; }
    }
    // integer-valued functions at arguments where a double detour and an exact computation part ways: just below, at and above
    // perfect squares / cubes beyond 2^52 (a feature subset may select another implementation)
    {
        let mut rng = Rng(0x5EEDC17);
        let mut ns: Vec<u64> = vec![4611686018427387903, 4503599761588224, 9223372036854775807, 4611686014132420609, 4611686018427387904, 9223372030926249001, 9223372037000250000];
        for _ in 0..40 { let r = 67108865 + rng.below(2969000000) as u64; ns.push(r * r - 1); ns.push(r * r); ns.push(r * r + 1); }
        for e in ["i64", "num", "f64", "dec"] {
            for nv in &ns {
                if *nv > i64::MAX as u64 { continue; }
                let _ = writeln!(w, "{}\tsqrt({})", e, nv); n += 1;
                if e != "dec" { let _ = writeln!(w, "{}\troot(2,{})", e, nv); let _ = writeln!(w, "{}\tlb({})", e, nv); n += 2; }
            }
        }
    }
    // a syntax error next to a symbol that only some evaluators know (whichever is met first decides the error that is returned:
    // that, too, must not depend on which other evaluators are compiled in)
    for e in ["f64", "i64", "dec", "cpx", "num"] {
        for pre in ["1)", "2+*", ")", "(", "1,", "2(", "abs(,", "1..2", "#"] {
            for sym in ["π", "°", "⌊2⌋", "⌈2⌉", "²", "@", "!", "%2", "&1", "<<1", "i", "rad", "e", "pi", "\u{a0}", "é"] {
                let _ = writeln!(w, "{}\t{}{}", e, pre, sym); let _ = writeln!(w, "{}\t{}{}", e, sym, pre); n += 2;
            }
        }
    }
    // literals of 15 to 19 significant digits with a fraction (where a short-cut conversion and `str::parse` part ways): a feature
    // subset may select another conversion path
    {
        let mut rng = Rng(0x11AE5EED);
        for e in ["f64", "dec", "cpx", "num"] {
            for k in 0..240usize {
                let nd = 15 + k % 5;
                let mut ds: String = (0..nd).map(|i| { let d = rng.below(10); char::from(b'0' + if i == 0 && d == 0 { 9 } else { d as u8 }) }).collect();
                if k % 3 == 0 { ds = format!("{}{}", "9".repeat(nd - 3), &ds[..3]); }
                let point = match k % 4 { 0 => 0, 1 => 1, 2 => nd / 2, _ => nd - 1 };
                let lit = if point == 0 { format!("0.{}", ds) } else { format!("{}.{}", &ds[..point], &ds[point..]) };
                let _ = writeln!(w, "{}\t{}", e, lit); n += 1;
                if k % 4 == 0 { let _ = writeln!(w, "{}\t.{}*2", e, ds); n += 1; }
                if e != "cpx" && k % 2 == 0 { let _ = writeln!(w, "{}\t{}({})", e, if k % 4 == 0 { "floor" } else { "round" }, lit); n += 1; }
            }
        }
    }
    // every use of a precedence level (the levels are cfg-dependent enum ordinals): implicit products with every kind of left and
    // right factor, every suffix after the right factor, every operator to the left
    for e in ["f64", "i64", "dec", "cpx", "num"] {
        for line in jux_corpus(&v, e) { let _ = writeln!(w, "{}\t{}", e, line); n += 1; }
    }
    // every function, alias and postfix operator of every evaluator on signed arguments (a feature subset may select another
    // implementation of a helper: each must behave as in the all-features build)
    let args_all = ["-1", "-2", "-2.5", "-0.5", "0", "0.5", "1", "2.5", "3", "10", "-7", "100", "0.1", "25", "-1.5", "1000000", "-3", "4.5", "-0.25", "171"];
    for e in ["f64", "i64", "dec", "cpx", "num"] {
        let args: Vec<&str> = args_all.iter().cloned().filter(|a| e != "i64" || !a.contains('.')).collect();
        for kw in v.all_keywords_of(e) {
            match kw.cls.as_str() {
                "f1" => for a in &args { let _ = writeln!(w, "{}\t{}({})", e, kw.name, a); n += 1; },
                "f2" => for (i, a) in args.iter().enumerate() { let b = args[(i * 7 + 3) % args.len()]; let _ = writeln!(w, "{}\t{}({},{})", e, kw.name, a, b); n += 1; },
                _ => for (i, a) in args.iter().enumerate() { let b = args[(i * 5 + 1) % args.len()]; let c = args[(i * 3 + 2) % args.len()];
                                                             let _ = writeln!(w, "{}\t{}({},{},{})", e, kw.name, a, b, c); let _ = writeln!(w, "{}\t{}({})", e, kw.name, a); n += 2; },
            }
        }
        for a in &args {
            if v.has_kind(e, "bang") { let _ = writeln!(w, "{}\t({})!", e, a); n += 1; }
            if v.has_kind(e, "deg") { let _ = writeln!(w, "{}\t({})°", e, a); let _ = writeln!(w, "{}\t({})rad", e, a); n += 2; }
            if v.has_kind(e, "lf") { let _ = writeln!(w, "{}\t⌊{}⌋+⌈{}⌉", e, a, a); n += 1; }
            let _ = writeln!(w, "{}\t({})^({})", e, a, args[(a.len() * 3) % args.len()]); n += 1;
        }
    }
    for k in history::key_pool() { let _ = writeln!(w, "{}\t{}", k.e, k.expr); n += 1; }
    let _ = w.flush();
    std::fs::write(job["stats"].as_str().unwrap(), json!({"lines": n}).to_string()).unwrap();
}

/// ref-selftest: the reference interpreter instantiated at the specification's small word size must
/// reproduce every vector TLC computed from IntSem / NumSem (spec/MCSem.tla).
fn run_selftest(job: &Value) {
    use refsem::i64sem::I64Sem;
    use refsem::numsem::{NumSem, NAlt, NV};
    use refsem::{Sem, Stop};
    let file = std::io::BufReader::new(std::fs::File::open(job["beh"].as_str().unwrap()).unwrap());
    let (mut n, mut bad) = (0u64, 0u64);
    let mut first_bad: Vec<String> = vec![];
    let mut samples: Vec<Value> = vec![];
    for line in file.lines() {
        let line = line.unwrap();
        let v: Value = match serde_json::from_str(&line) { Ok(x) => x, Err(_) => continue };
        let (kind, op) = (v["kind"].as_str().unwrap(), v["op"].as_str().unwrap());
        if kind == "dbin" || kind == "cbin" {
            n += 1;
            let ok = selftest_dec_cpx(kind, op, &v);
            if !ok { bad += 1; if first_bad.len() < 5 { first_bad.push(line.clone()); } }
            else if samples.len() < 4 && n % 9973 == 1 { samples.push(v.clone()); }
            continue;
        }
        let (a, b, w) = (v["a"].as_i64().unwrap() as i128, v["b"].as_i64().unwrap() as i128, v["w"].as_u64().unwrap() as u32);
        let r = &v["r"];
        n += 1;
        let ok = match kind {
            "ibin" | "iun" => {
                let s = I64Sem::new(w, 0);
                let got = if kind == "ibin" { s.bin(op, a, b) } else { match op { "abs" => s.call("Abs", vec![a]), "sgn" => s.call("Sign", vec![a]), _ => s.un(op, a) } };
                match (r["k"].as_str().unwrap(), &got) {
                    ("ok", Ok(x)) => *x == r["v"].as_i64().unwrap() as i128,
                    ("err", Err(Stop::Err(_))) => true,
                    ("unspec", Err(Stop::Unspec(_))) => true,
                    _ => false,
                }
            }
            "nbin" | "nun" => {
                let s = NumSem::new(w, NV::I(0));
                let one = |x: i128| NAlt(vec![NV::I(x)]);
                let got = if kind == "nbin" { s.bin(op, one(a), one(b)) } else { match op { "abs" => s.call("Abs", vec![one(a)]), "sgn" => s.call("Sign", vec![one(a)]), "floor" => s.call("Floor", vec![one(a)]), _ => s.un(op, one(a)) } };
                let t = r["t"].as_str().unwrap();
                let (rn, rd) = (r["n"].as_i64().unwrap(), r["d"].as_i64().unwrap());
                match (t, &got) {
                    ("I", Ok(x)) => x.0 == vec![NV::I(rn as i128)],
                    ("F", Ok(x)) => x.0.len() == 1 && matches!(x.0[0], NV::F(f) if f == (rn as f64) / (rd as f64)),
                    ("NaN", Ok(x)) => matches!(x.0[0], NV::F(f) if f.is_nan()),
                    ("Inf", Ok(x)) => matches!(x.0[0], NV::F(f) if f.is_infinite() && (f > 0.0) == (rn > 0)),
                    ("unspec", Err(Stop::Unspec(_))) => true,
                    // a Float fallback whose value the model cannot hold in 32 bits: the interpreter must answer Float (or decline at small W)
                    ("Fpow", Ok(x)) => matches!(x.0[0], NV::F(f) if f == (rn as f64).powf(rd as f64)),
                    ("Ffact", Err(Stop::Unspec(_))) => true,
                    ("Ffact", Ok(x)) => matches!(x.0[0], NV::F(_)),
                    _ => false,
                }
            }
            "round" => {
                let s = NumSem::new(w, NV::I(0));
                let x = NAlt(vec![NV::F(a as f64 / b as f64)]);
                ["floor", "ceil", "trunc", "round"].iter().all(|f| {
                    let want = r[*f].as_i64().unwrap() as f64;
                    let fname = match *f { "floor" => "Floor", "ceil" => "Ceil", "trunc" => "Truncate", _ => "Round" };
                    match s.call(fname, vec![x.clone()]) { Ok(y) => y.0.iter().all(|v| v.as_f64() == want), _ => false }
                })
            }
            _ => true,
        };
        if !ok { bad += 1; if first_bad.len() < 5 { first_bad.push(line.clone()); } }
        else if samples.len() < 4 && n % 9973 == 1 { samples.push(v.clone()); }
    }
    let out = json!({"vectors": n, "disagreements": bad, "first": first_bad, "samples": samples});
    std::fs::write(job["stats"].as_str().unwrap(), out.to_string()).unwrap();
    if bad > 0 { eprintln!("ref-selftest: {} of {} vectors disagree, e.g. {:?}", bad, n, first_bad); std::process::exit(3); }
}

/// vectors of spec/MCDecCpx.tla: the decimal interpreter instantiated at the specification's toy format, the complex pair arithmetic
fn selftest_dec_cpx(kind: &str, op: &str, v: &Value) -> bool {
    use refsem::bignum::BigInt;
    use refsem::decsem::{normalize, set_toy_format, DecSem, DV};
    use refsem::{Sem, Stop};
    let r = &v["r"];
    if kind == "cbin" {
        let z = |x: &Value| (x["re"].as_i64().unwrap() as f64, x["im"].as_i64().unwrap() as f64);
        let (a, b) = (z(&v["a"]), z(&v["b"]));
        let got = match op { "add" => refsem::cpxsem::add(a, b), "sub" => refsem::cpxsem::sub(a, b), _ => refsem::cpxsem::mul(a, b) };
        // the Sem interface must agree with the free functions too
        let s = refsem::cpxsem::CpxSem::new((0.0, 0.0));
        let via = s.bin(op, a, b);
        return got == z(r) && matches!(via, Ok(w) if w == got);
    }
    set_toy_format(v["p"].as_u64().unwrap() as u32, v["s"].as_u64().unwrap() as u32);
    let d = |x: &Value| DV::Dec { c: BigInt::from_i128(x["c"].as_i64().unwrap() as i128), s: x["s"].as_u64().unwrap() as u32 };
    let sem = DecSem::new(DV::Dec { c: BigInt::from_i128(0), s: 0 });
    let got = sem.bin(op, d(&v["a"]), d(&v["b"]));
    let ok = match (r["k"].as_str().unwrap(), &got) {
        ("ok", Ok(DV::Dec { c, s })) => { let (c1, s1) = normalize(c, *s); c1 == BigInt::from_i128(r["n"].as_i64().unwrap() as i128) && s1 as u64 == r["s"].as_u64().unwrap() }
        ("quot", Ok(DV::Quot { n, d })) => n.mul(&BigInt::from_i128(r["d"].as_i64().unwrap() as i128)) == d.mul(&BigInt::from_i128(r["n"].as_i64().unwrap() as i128)),
        ("err", Err(Stop::Err(_))) => true,
        ("unspec", Err(Stop::Unspec(_))) => true,
        _ => false,
    };
    refsem::decsem::set_real_format();
    ok
}

fn main() {
    let args: Vec<String> = std::env::args().collect();
    call::install_quiet_panic_hook();
    if args.len() >= 3 && args[1] == "run" {
        let job: Value = serde_json::from_str(&std::fs::read_to_string(&args[2]).unwrap()).unwrap();
        match job["mode"].as_str().unwrap() {
            "replay" => run_replay(&job),
            "selftest" => run_selftest(&job),
            "agg" => run_agg(&job),
            "cross" => run_cross(&job),
            "nearmiss" => {
                let v = vocab::Vocab::load(job["vocab"].as_str().unwrap());
                let mut out = open_out(&job, profile_name());
                let mut rng = Rng(job["seed"].as_u64().unwrap_or(1).wrapping_mul(0x9E3779B97F4A7C15) ^ 0x5EED);
                functions::near_miss_names(&mut out, &v, job["e"].as_str().unwrap(), &mut rng, job["n"].as_u64().unwrap_or(500) as usize);
                out.heartbeat(u64::MAX);
                write_stats(&job, &mut out, true);
            }
            "chains" => {
                let mut out = open_out(&job, profile_name());
                let mut rng = Rng(job["seed"].as_u64().unwrap_or(1).wrapping_mul(0x9E3779B97F4A7C15) ^ 0xC4A1);
                engine::long_chains(&mut out, job["e"].as_str().unwrap(), &mut rng, job["n"].as_u64().unwrap_or(300) as usize);
                out.heartbeat(u64::MAX);
                write_stats(&job, &mut out, true);
            }
            "fnpairs" => {
                let v = vocab::Vocab::load(job["vocab"].as_str().unwrap());
                let mut out = open_out(&job, profile_name());
                functions::nested_pairs(&mut out, &v, job["e"].as_str().unwrap());
                out.heartbeat(u64::MAX);
                write_stats(&job, &mut out, true);
            }
            "corpus" => run_corpus(&job),
            "juxcorpus" => run_juxcorpus(&job),
            "conv" => { let mut out = open_out(&job, profile_name()); conv::run_conv(&mut out, job["seed"].as_u64().unwrap_or(1), job["random"].as_u64().unwrap_or(100000)); out.heartbeat(u64::MAX); write_stats(&job, &mut out, true); }
            "literals" => { let mut out = open_out(&job, profile_name()); conv::run_literals(&mut out, job["seed"].as_u64().unwrap_or(1), job["random"].as_u64().unwrap_or(2000), job["maxlen"].as_u64().unwrap_or(5) as usize); out.heartbeat(u64::MAX); write_stats(&job, &mut out, true); }
            "history" => {
                let mut out = open_out(&job, profile_name());
                history::run(&mut out, job["seed"].as_u64().unwrap_or(1), job["n_seq"].as_u64().unwrap_or(1000) as usize, job["n_par"].as_u64().unwrap_or(1600) as usize, job["threads"].as_u64().unwrap_or(16) as usize);
                out.heartbeat(u64::MAX);
                write_stats(&job, &mut out, true);
            }
            "loops" => {
                let v = vocab::Vocab::load(job["vocab"].as_str().unwrap());
                let mut out = open_out(&job, profile_name());
                if job["shapes"].as_bool().unwrap_or(false) { loops::deep_shapes(&mut out, &v, job["e"].as_str().unwrap(), job["thread_stack"].as_u64().unwrap_or(0) as usize, job["hb"].as_str().map(|h| format!("{}.input", h)), job["start"].as_u64().unwrap_or(0)); }
                else { loops::run(&mut out, &v, job["e"].as_str().unwrap(), job["shard"].as_u64().unwrap_or(0), job["nshards"].as_u64().unwrap_or(1), job["start"].as_u64().unwrap_or(0)); }
                out.heartbeat(u64::MAX);
                write_stats(&job, &mut out, true);
            }
            m => { eprintln!("unknown mode {}", m); std::process::exit(2); }
        }
    } else if args.len() >= 3 && args[1] == "iso" {
        println!("{}", history::isolated_canon(args[2].parse().unwrap()));
    } else if args.len() >= 4 && args[1] == "one-thread" {
        // the same on a spawned thread with the default stack of std::thread (2 MiB), as a library user would call it
        let (e, x) = (args[2].clone(), args[3].clone());
        let h = std::thread::spawn(move || { let ph = call::default_placeholder(&e); let (o, t) = call::call(&e, &x, &ph); println!("{} ticks={}", o.show(), t.total()); });
        let _ = h.join();
    } else if args.len() >= 4 && args[1] == "one" {
        // sc_harness one <evaluator> <expr> [placeholder canon]  -- replay of a single call
        let e = &args[2];
        let ph = args.get(4).and_then(|c| val::parse_canon(c)).unwrap_or_else(|| call::default_placeholder(e));
        let (o, t) = call::call(e, &args[3], &ph);
        println!("{} ticks={}", o.show(), t.total());
        if std::env::var("SHOW_TREE").is_ok() { println!("tree: {:?}", call::last_tree().map(|g| ast::shape_of_debug(&g).map(|v| v.to_string()).unwrap_or(g))); }
    } else {
        eprintln!("usage: sc_harness run <job.json> | one <e> <expr>");
        std::process::exit(2);
    }
}
