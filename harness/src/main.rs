fn main() { println!("{:?}", string_calculator::eval_f64("1+1".to_string(), 0.0).ok()); }
