#![allow(dead_code)]
mod vocab; mod tree; mod val; mod call; mod render; mod refsem; mod expect; mod engine; mod meta;

use engine::*;
use serde_json::{json, Value};
use std::io::{BufRead, Write};

fn open_out(job: &Value, profile: &str) -> Out {
    let f = |k: &str| std::io::BufWriter::new(std::fs::OpenOptions::new().create(true).append(true).open(job[k].as_str().unwrap()).unwrap());
    let hb = job["hb"].as_str().map(|p| std::fs::OpenOptions::new().create(true).write(true).open(p).unwrap());
    let unspec = job["unspec"].as_str().map(|p| std::io::BufWriter::new(std::fs::OpenOptions::new().create(true).append(true).open(p).unwrap()));
    Out { findings: f("out"), events: f("events"), hb, unspec, stats: Stats::default(),
          event_every: job["event_every"].as_u64().unwrap_or(0), event_cap: job["event_cap"].as_u64().unwrap_or(0), profile: profile.to_string() }
}

fn write_stats(job: &Value, out: &mut Out, done: bool) {
    let s = &out.stats;
    let v = json!({"done": done, "items": s.items, "calls": s.calls, "compared": s.compared, "matched": s.matched, "not_asserted": s.not_asserted,
        "not_asserted_rules": s.not_asserted_rules, "findings": s.findings, "by_cat": s.by_cat, "distinct": s.distinct.len(), "nontrivial": s.nontrivial.len(),
        "events": s.events, "max_ticks_ratio": s.max_ticks_ratio, "max_ticks": s.max_ticks, "samples": s.samples, "metamorphic_pairs": s.metamorphic_pairs,
        "profile": out.profile});
    let mut f = std::fs::OpenOptions::new().create(true).append(true).open(job["stats"].as_str().unwrap()).unwrap();
    let _ = writeln!(f, "{}", v);
    let _ = out.findings.flush();
    let _ = out.events.flush();
    if let Some(w) = &mut out.unspec { let _ = w.flush(); }
}

fn profile_name() -> &'static str { if cfg!(debug_assertions) { "debug" } else { "release" } }

fn run_replay(job: &Value) {
    let v = vocab::Vocab::load(job["vocab"].as_str().unwrap());
    let e = job["e"].as_str().unwrap().to_string();
    let shard = job["shard"].as_u64().unwrap_or(0);
    let nshards = job["nshards"].as_u64().unwrap_or(1);
    let start = job["start"].as_u64().unwrap_or(0);
    let nasg = job["assignments"].as_u64().unwrap_or(2) as usize;
    let min_ops = job["nontrivial_min_ops"].as_u64().unwrap_or(2) as usize;
    let full_ph = job["full_placeholders"].as_bool().unwrap_or(false);
    let allfns = job["all_functions"].as_bool().unwrap_or(false);
    let mut out = open_out(job, profile_name());
    let pols: Vec<render::Policy> = (0..nasg).map(|k| {
        let mut p = if allfns { render::Policy::all_fns(&e, k * 3 + 1) } else { render::Policy::reveal(&e, k * 3) };
        if k == 1 { p.spaces = true; }
        p
    }).collect();
    let phs = placeholder_pool(&e, full_ph);
    let boundary = job["boundary_pool"].as_bool().unwrap_or(false);
    let max_assign = job["max_assign"].as_u64().unwrap_or(512) as usize;
    let only_kinds: Vec<String> = job["only_kinds"].as_array().map(|a| a.iter().filter_map(|x| x.as_str().map(String::from)).collect()).unwrap_or_default();
    let extras: Vec<String> = job["extras"].as_array().map(|a| a.iter().filter_map(|x| x.as_str().map(String::from)).collect()).unwrap_or_default();
    let samples: Vec<Vec<String>> = job["samples"].as_array().map(|a| a.iter().map(|s| s.as_array().unwrap().iter().map(|k| k.as_str().unwrap().to_string()).collect()).collect()).unwrap_or_default();
    let thorough = job["tier"].as_str() == Some("thorough");
    let nsuffix = job["reject_suffixes"].as_u64().unwrap_or(0) as usize;
    let mut rng = Rng(job["seed"].as_u64().unwrap_or(1).wrapping_mul(0x9E3779B97F4A7C15) ^ shard);
    let file = std::io::BufReader::new(std::fs::File::open(job["beh"].as_str().unwrap()).unwrap());
    for (i, line) in file.lines().enumerate() {
        let i = i as u64;
        if i % nshards != shard || i < start { continue; }
        let line = line.unwrap();
        let bv: Value = match serde_json::from_str(&line) { Ok(x) => x, Err(_) => continue };
        out.heartbeat(i);
        out.stats.items += 1;
        if bv.get("chars").is_some() {
            let (text, outs) = replay_string(&mut out, &e, &bv, &phs, i);
            if extras.iter().any(|x| x == "spellings") { meta::whitespace_only(&mut out, &e, &text, &outs, &mut rng, thorough); }
            continue;
        }
        let b = parse_beh(&bv);
        if !b.kinds.iter().all(|k| k == "bad" || v.has_kind(&e, k)) { continue; }
        if !only_kinds.is_empty() && !b.kinds.iter().all(|k| only_kinds.contains(k)) { continue; }
        if boundary {
            // exhaustive assignment of the boundary pool to the literal positions of accepted sequences
            if b.verdict != "accept" || !b.renderable || b.numnum { continue; }
            let nlit = b.kinds.iter().filter(|k| *k == "num").count();
            let lits = boundary_lits(&e);
            let asgs = assignments(nlit, lits.len(), max_assign, &mut rng);
            let bp: Vec<render::Policy> = asgs.into_iter().map(|a| { let mut p = render::Policy::reveal(&e, 0); p.lits = lits.clone(); p.fixed = a; p.sups = vec!["2".into(), "3".into(), "0".into(), "1".into(), "63".into(), "64".into()]; p }).collect();
            replay_base(&mut out, &v, &e, &b, &bp, &phs, min_ops);
            continue;
        }
        let used = replay_base(&mut out, &v, &e, &b, &pols, &phs, min_ops);
        if nsuffix > 0 { replay_reject_suffixes(&mut out, &v, &e, &b, &pols[0], &mut rng, nsuffix); }
        for (k, (r, outs)) in used.iter().enumerate() {
            if extras.iter().any(|x| x == "jux") { meta::jux(&mut out, &e, &b, r, outs); }
            if extras.iter().any(|x| x == "spellings") { meta::spellings(&mut out, &v, &e, &b, r, outs, &pols[k.min(pols.len() - 1)], &mut rng, thorough); }
            if extras.iter().any(|x| x == "ans") { meta::placeholder_as_constant(&mut out, &e, &b, r, outs); }
            if extras.iter().any(|x| x == "subst") && k == 0 { meta::substitution(&mut out, &v, &e, &b, r, &samples, &pols[0]); }
        }
    }
    out.heartbeat(u64::MAX);
    write_stats(job, &mut out, true);
}

fn main() {
    let args: Vec<String> = std::env::args().collect();
    call::install_quiet_panic_hook();
    if args.len() >= 3 && args[1] == "run" {
        let job: Value = serde_json::from_str(&std::fs::read_to_string(&args[2]).unwrap()).unwrap();
        match job["mode"].as_str().unwrap() {
            "replay" => run_replay(&job),
            m => { eprintln!("unknown mode {}", m); std::process::exit(2); }
        }
    } else if args.len() >= 4 && args[1] == "one" {
        // sc_harness one <evaluator> <expr> [placeholder canon]  -- replay of a single call
        let e = &args[2];
        let ph = call::default_placeholder(e);
        let (o, t) = call::call(e, &args[3], &ph);
        println!("{} ticks={}", o.show(), t.total());
    } else {
        eprintln!("usage: sc_harness run <job.json> | one <e> <expr>");
        std::process::exit(2);
    }
}
