//! Values and call outcomes of the five evaluators, with canonical (bit-exact) encodings.
use num_complex::Complex;
use rust_decimal::Decimal;
use serde_json::{json, Value};
use string_calculator::Number;

#[derive(Clone, Debug)]
pub enum Val {
    F(f64),
    I(i64),
    D(Decimal),
    C(Complex<f64>),
    N(Number),
}

#[derive(Clone, Debug)]
pub enum Outcome {
    Ok(Val),
    Err(String),
    /// a panic that is not the step budget
    Panic(String),
    /// the step budget of the hook was exceeded
    Budget,
}

fn fbits(x: f64) -> String {
    if x.is_nan() { "nan".into() } else { format!("{:016x}", x.to_bits()) }
}

impl Val {
    /// canonical encoding: equal strings <=> bit-identical values (all NaNs identified)
    pub fn canon(&self) -> String {
        match self {
            Val::F(x) => format!("f64:{}", fbits(*x)),
            Val::I(x) => format!("i64:{}", x),
            Val::D(d) => format!("dec:{}e-{}", d.mantissa(), d.scale()),
            Val::C(c) => format!("cpx:{},{}", fbits(c.re), fbits(c.im)),
            Val::N(Number::Integer(i)) => format!("Int:{}", i),
            Val::N(Number::Float(x)) => format!("Flt:{}", fbits(*x)),
        }
    }
    pub fn show(&self) -> String {
        match self {
            Val::F(x) => format!("{:?}", x),
            Val::I(x) => format!("{}", x),
            Val::D(d) => format!("{}", d),
            Val::C(c) => format!("{:?}+{:?}i", c.re, c.im),
            Val::N(n) => format!("{:?}", n),
        }
    }
    /// abstract form for trace events (numeric view: the sign of a zero is not represented): small integers are given as numbers so that the
    /// specification can recompute them; everything else is an opaque canonical string
    pub fn abstract_json(&self) -> Value {
        const LIM: i64 = 1 << 24;
        let small = |i: i64| i > -LIM && i < LIM;
        match self {
            Val::I(i) if small(*i) => json!({"t": "int", "v": i}),
            Val::N(Number::Integer(i)) if small(*i) => json!({"t": "Integer", "v": i}),
            Val::N(Number::Float(x)) if x.fract() == 0.0 && x.abs() < LIM as f64 =>
                json!({"t": "Float", "v": *x as i64}),
            Val::F(x) if x.fract() == 0.0 && x.abs() < LIM as f64 =>
                json!({"t": "int", "v": *x as i64}),
            Val::D(d) if d.scale() == 0 && d.mantissa().abs() < LIM as i128 => json!({"t": "int", "v": d.mantissa() as i64}),
            Val::C(c) if c.im == 0.0 && c.re.fract() == 0.0 && c.re.abs() < LIM as f64 =>
                json!({"t": "int", "v": c.re as i64}),
            _ => json!({"t": "opaque", "v": self.canon()}),
        }
    }
}

impl Outcome {
    pub fn status(&self) -> &'static str {
        match self {
            Outcome::Ok(_) => "ok",
            Outcome::Err(_) => "err",
            Outcome::Panic(_) => "panic",
            Outcome::Budget => "budget",
        }
    }
    pub fn canon(&self) -> String {
        match self {
            Outcome::Ok(v) => format!("ok:{}", v.canon()),
            Outcome::Err(_) => "err".into(),
            Outcome::Panic(p) => format!("panic:{}", p),
            Outcome::Budget => "budget".into(),
        }
    }
    pub fn show(&self) -> String {
        match self {
            Outcome::Ok(v) => format!("Ok({})", v.show()),
            Outcome::Err(m) => format!("Err({})", m),
            Outcome::Panic(p) => format!("PANIC({})", p),
            Outcome::Budget => "STEP-BUDGET-EXCEEDED".into(),
        }
    }
    pub fn is_ok(&self) -> bool { matches!(self, Outcome::Ok(_)) }
    pub fn is_err(&self) -> bool { matches!(self, Outcome::Err(_)) }
    pub fn returned(&self) -> bool { self.is_ok() || self.is_err() }
}

/// inverse of `Val::canon` (replay of a recorded finding)
pub fn parse_canon(c: &str) -> Option<Val> {
    let fb = |h: &str| -> Option<f64> { if h == "nan" { Some(f64::NAN) } else { u64::from_str_radix(h, 16).ok().map(f64::from_bits) } };
    let (tag, rest) = c.split_once(':')?;
    match tag {
        "f64" => Some(Val::F(fb(rest)?)),
        "i64" => rest.parse().ok().map(Val::I),
        "dec" => { let (m, s) = rest.split_once("e-")?; Some(Val::D(Decimal::try_from_i128_with_scale(m.parse().ok()?, s.parse().ok()?).ok()?)) }
        "cpx" => { let (a, b) = rest.split_once(',')?; Some(Val::C(Complex::new(fb(a)?, fb(b)?))) }
        "Int" => rest.parse().ok().map(|i| Val::N(Number::Integer(i))),
        "Flt" => Some(Val::N(Number::Float(fb(rest)?))),
        _ => None,
    }
}
