//! C16: evaluation is a pure function of (expression, placeholder).
//! A seeded pool of keys (all evaluators, Ok and Err inputs, the same expression with different
//! placeholders incl. +0.0 / -0.0 and NaN) is evaluated (a) each key once in a fresh process,
//! (b) in a long random history on one thread, (c) concurrently on 16 threads; every outcome must be
//! bit-identical to the isolated one.  All calls are recorded for trace validation (CalcTrace!PureOK).
use crate::call::call;
use crate::engine::{h64, Out, Rng};
use crate::val::{Outcome, Val};
use crate::vocab::abstract_chars;
use num_complex::Complex;
use rust_decimal::prelude::*;
use serde_json::json;
use std::io::Write;
use string_calculator::Number;

#[derive(Clone)]
pub struct Key { pub e: &'static str, pub expr: String, pub ph: Val }

pub fn key_pool() -> Vec<Key> {
    let mut v = Vec::new();
    let f = |x: f64| Val::F(x);
    let exprs_real = ["@", "1/@", "atan2(@,-1)", "sqrt(@)", "@*2+1", "-@", "@^2", "min(@,0)", "@!", "1+2*3", "sin(@)+cos(1)", "(1", "2pi", "1/0", "w(-1)", "@@", "abs(@)(2)", "⌊@⌋+⌈2.5⌉", "avg()", "med(3,@,1)", "1.2.3"];
    for ex in exprs_real {
        for ph in [0.0, -0.0, f64::NAN, 1.5, -2.0, f64::INFINITY, 3.0] { v.push(Key { e: "f64", expr: ex.to_string(), ph: f(ph) }); }
    }
    for ex in exprs_real {
        for ph in [Number::Float(0.0), Number::Float(-0.0), Number::Integer(0), Number::Integer(3), Number::Float(3.0), Number::Float(f64::NAN), Number::Integer(i64::MIN)] {
            v.push(Key { e: "num", expr: ex.to_string(), ph: Val::N(ph) });
        }
    }
    for ex in ["@", "@*2", "@/2", "1/@", "@%3", "-@", "@!", "gcd(@,12)", "1<<@", "@&6|1", "max(@,2,1)", "(1", "1/0", "9223372036854775807+@", "@²", "abs(@)", "2(@)"] {
        for ph in [0i64, 3, -3, 1, 63, i64::MAX, i64::MIN] { v.push(Key { e: "i64", expr: ex.to_string(), ph: Val::I(ph) }); }
    }
    for ex in ["@", "@*2", "@/3", "1/@", "@+0.1", "round(@)", "@!", "sqrt(@)", "(1", "1/0", "@*1.10", "min(@,1.50)", "ln(@)"] {
        for ph in [Decimal::new(15, 1), Decimal::new(150, 2), Decimal::ZERO, Decimal::new(-3, 0), Decimal::new(3, 0), Decimal::MAX] { v.push(Key { e: "dec", expr: ex.to_string(), ph: Val::D(ph) }); }
    }
    // selections among operands that are equal in value and differ in representation (sign of zero, Integer / Float, Decimal scale):
    // which one is returned must not depend on what was evaluated before (a randomised or adaptive selection would)
    for ex in ["med(-1,0,-0,0,1)", "med(0,-0,0)", "max(0,-0)", "min(-0,0)", "med(@,-0,0,1,-1)", "max(@,0)", "med(2,@,1.0,1,0.5)"] {
        for ph in [0.0, -0.0, 1.0] { v.push(Key { e: "f64", expr: ex.to_string(), ph: f(ph) }); }
    }
    for ex in ["med(0,1,1.0,1,2)", "med(1.0,1,1.0,0,2)", "max(1,1.0)", "max(1.0,1)", "min(2,2.0,@)", "med(@,1.0,1,0,3)", "med(0,-0.0,0.0,1,-1)"] {
        for ph in [Number::Integer(1), Number::Float(1.0), Number::Integer(2), Number::Float(-0.0)] { v.push(Key { e: "num", expr: ex.to_string(), ph: Val::N(ph) }); }
    }
    for ex in ["med(2,1.0,1.00)", "med(0,1.0,@,1,2)", "max(1.0,1.00,1)", "min(@,1.50,1.5)", "med(1.00,1,1.0,0,3)", "med(@,1.5,1.50,2,1)"] {
        for ph in [Decimal::new(100, 2), Decimal::new(75, 1), Decimal::new(15, 1), Decimal::new(1500, 3)] { v.push(Key { e: "dec", expr: ex.to_string(), ph: Val::D(ph) }); }
    }
    for ex in ["med(3,1,2)", "med(@,@,1,2,3)", "med(4,@,4,1)"] { for ph in [0i64, 4, 2] { v.push(Key { e: "i64", expr: ex.to_string(), ph: Val::I(ph) }); } }
    // long argument lists of inexact doubles: a summation whose order depends on where the operands happen to lie in memory
    // (alignment-driven chunking) gives another last bit after other calls have shaped the heap
    for n in [32usize, 37, 50, 64, 100, 129] {
        let list: Vec<String> = (0..n).map(|k| format!("{:.2}", 0.11 + 1.37 * ((k * 7) % 31) as f64 + 0.01 * k as f64)).collect();
        for agg in ["avg", "med", "max"] {
            v.push(Key { e: "f64", expr: format!("{}({})", agg, list.join(",")), ph: f(0.0) });
            v.push(Key { e: "num", expr: format!("{}({})", agg, list.join(",")), ph: Val::N(Number::Integer(0)) });
        }
    }
    // iterative solvers and series (Lambert W, Gamma, ilog, roots, exp / ln of eval_decimal) at neighbouring arguments: a solver that
    // remembers its last answer (warm start, memo) shows when the same function is called again close by
    let near: [f64; 9] = [-0.36, -0.3678, -0.35, 0.5, 0.51, 2.5, 2.55, 26.5, 27.0];
    for ex in ["w(@)", "lambert_w(@)+1", "max(w(@),w(@-0.01))", "@!", "sqrt(@)", "ln(@)", "exp(@)", "ilog(@,1.5)", "root(3,@)", "2^@", "log(@,3)"] {
        for x in near {
            v.push(Key { e: "dec", expr: ex.to_string(), ph: Val::D(Decimal::from_f64_retain(x).unwrap().round_dp(4)) });
            if !ex.starts_with("max(") { v.push(Key { e: "f64", expr: ex.to_string(), ph: f(x) }); v.push(Key { e: "num", expr: ex.to_string(), ph: Val::N(Number::Float(x)) }); }
        }
    }
    for ex in ["@", "@*i", "1/@", "sqrt(@)", "@^2", "-@", "ln(@)", "abs(@)", "(1", "@@", "2i3", "exp(@*pi)"] {
        for ph in [Complex::new(0.0, 0.0), Complex::new(-0.0, 0.0), Complex::new(0.0, -0.0), Complex::new(-1.0, 0.0), Complex::new(-1.0, -0.0), Complex::new(1.5, -2.0), Complex::new(f64::NAN, 1.0)] {
            v.push(Key { e: "cpx", expr: ex.to_string(), ph: Val::C(ph) });
        }
    }
    v
}

/// long-running calls for the overlapping phase (no length bound in C16): operator chains of several hundred links, argument
/// lists of several hundred values, nesting a hundred deep, loops at their caps
pub fn heavy_pool() -> Vec<Key> {
    let mut v = Vec::new();
    for (e, ph) in [("f64", Val::F(0.5)), ("i64", Val::I(3)), ("dec", Val::D(Decimal::new(15, 1))), ("cpx", Val::C(Complex::new(0.5, -2.0))), ("num", Val::N(Number::Float(0.5)))] {
        for n in [300usize, 700, 1200] {
            v.push(Key { e, expr: format!("@{}", "+1".repeat(n)), ph: ph.clone() });
            v.push(Key { e, expr: format!("@{}", "*1".repeat(n)), ph: ph.clone() });
        }
        // deep on the evaluation side, cheap on the parsing side: ((((@+1)+1)+1)...) - one operator per bracket level
        for n in [400usize, 900] { v.push(Key { e, expr: format!("{}@{}", "(".repeat(n), "+1)".repeat(n)), ph: ph.clone() }); }
        v.push(Key { e, expr: format!("{}@{}", "(".repeat(120), ")".repeat(120)), ph: ph.clone() });
        v.push(Key { e, expr: format!("{}@{}", "abs(".repeat(100), ")".repeat(100)), ph: ph.clone() });
        if e != "cpx" {
            v.push(Key { e, expr: format!("max({})+@", (1..400).map(|i| i.to_string()).collect::<Vec<_>>().join(",")), ph: ph.clone() });
            v.push(Key { e, expr: format!("med({})+@", (1..300).rev().map(|i| i.to_string()).collect::<Vec<_>>().join(",")), ph: ph.clone() });
            v.push(Key { e, expr: format!("avg(@,{}", "avg(1,2),".repeat(60) + "3)"), ph: ph.clone() });
            v.push(Key { e, expr: "20!+19!+18!+@".to_string(), ph: ph.clone() });
        }
    }
    v
}

pub fn isolated_canon(idx: usize) -> String {
    let pool = key_pool();
    let k = &pool[idx];
    let (o, _) = call(k.e, &k.expr, &k.ph);
    o.canon()
}

fn event(w: &mut impl Write, k: &Key, kid: usize, o: &Outcome, ticks: u64, lex: u64, parse: u64, eval: u64, loops: u64, thread: usize, seq: u64, kind: &str) {
    let val = match o { Outcome::Ok(v) => v.abstract_json(), _ => json!({"t": "none"}) };
    let line = json!({"ev": "Call", "e": k.e, "chars": abstract_chars(&k.expr), "len": k.expr.chars().count(), "ph": k.ph.abstract_json(), "st": o.status(),
                      "val": val, "canon": o.canon(), "ticks": ticks, "tk": {"lex": lex, "parse": parse, "eval": eval, "loops": loops},
                      "kid": kid, "thread": thread, "seq": seq, "phase": kind, "claim": {"v": "unclaimed"}, "noast": true});
    let _ = writeln!(w, "{}", line);
}

pub fn run(out: &mut Out, seed: u64, n_seq: usize, n_par: usize, threads: usize) {
    let pool = key_pool();
    // (a) isolated: one fresh process per key
    let exe = std::env::current_exe().unwrap();
    let mut iso: Vec<String> = Vec::with_capacity(pool.len());
    for i in 0..pool.len() {
        out.heartbeat(i as u64);
        let o = std::process::Command::new(&exe).arg("iso").arg(format!("{}", i)).output().expect("spawn");
        iso.push(String::from_utf8_lossy(&o.stdout).trim().to_string());
    }
    // the isolated calls are themselves events (they pin `seen` in the trace specification)
    for (i, k) in pool.iter().enumerate() {
        let (o, t) = call(k.e, &k.expr, &k.ph);
        // this first in-process evaluation must already agree with the fresh-process one
        check(out, k, i, &o, &iso[i], "first-in-process");
        event(&mut out.events, k, i, &o, t.total(), t.lex, t.parse, t.eval, t.loops, 0, i as u64, "isolated");
        out.stats.calls += 1;
    }
    // (b) sequential random history; with probability 1/3 the next key shares the expression of the previous one
    let mut rng = Rng(seed.wrapping_mul(0x2545F4914F6CDD1D) ^ 0xABCDEF);
    let same_expr: Vec<Vec<usize>> = pool.iter().map(|k| pool.iter().enumerate().filter(|(_, q)| q.e == k.e && q.expr == k.expr).map(|(j, _)| j).collect()).collect();
    let mut prev = 0usize;
    for s in 0..n_seq {
        out.heartbeat((pool.len() + s) as u64);
        let i = if rng.below(3) == 0 { let c = &same_expr[prev]; c[rng.below(c.len())] } else { rng.below(pool.len()) };
        prev = i;
        let k = &pool[i];
        let (o, t) = call(k.e, &k.expr, &k.ph);
        out.stats.calls += 1;
        check(out, k, i, &o, &iso[i], "sequential");
        if s % 7 == 0 && out.stats.events < out.event_cap { out.stats.events += 1; event(&mut out.events, k, i, &o, t.total(), t.lex, t.parse, t.eval, t.loops, 0, s as u64, "sequential"); }
    }
    // (c) concurrent histories
    let per = n_par / threads.max(1);
    let results: Vec<Vec<(usize, String, u64, [u64; 4])>> = std::thread::scope(|sc| {
        let hs: Vec<_> = (0..threads).map(|t| {
            let pool = &pool; let same_expr = &same_expr;
            sc.spawn(move || {
                let mut rng = Rng(seed ^ (t as u64 + 1).wrapping_mul(0x9E3779B97F4A7C15));
                let mut prev = 0usize;
                let mut v = Vec::with_capacity(per);
                for _ in 0..per {
                    let i = if rng.below(3) == 0 { let c = &same_expr[prev]; c[rng.below(c.len())] } else { rng.below(pool.len()) };
                    prev = i;
                    let k = &pool[i];
                    let (o, tk) = call(k.e, &k.expr, &k.ph);
                    v.push((i, o.canon(), tk.total(), [tk.lex, tk.parse, tk.eval, tk.loops]));
                }
                v
            })
        }).collect();
        hs.into_iter().map(|h| h.join().unwrap()).collect()
    });
    for (t, v) in results.iter().enumerate() {
        for (s, (i, canon, _, _)) in v.iter().enumerate() {
            out.stats.calls += 1;
            if canon != &iso[*i] {
                let k = &pool[*i];
                out.finding("impure", k.e, &k.expr, &k.ph, &format!("the outcome of an isolated first-time evaluation: {}", iso[*i]), &format!("{} (thread {}, call {})", canon, t + 1, s), json!({"phase": "concurrent"}));
            }
        }
    }
    // (d) heavy calls overlapping in time: long operator chains, long argument lists and deep nesting keep many calls in
    // flight at the same instant on all threads (a resource shared between calls shows only then); each outcome must equal the
    // one computed alone on one thread
    let mut heavy = heavy_pool();
    // the holder: one call that stays deep inside its evaluation for milliseconds (a 2500-link chain around an average of 200 000
    // arguments), repeated by the first thread while the others run their long calls
    let holder = heavy.len();
    heavy.push(Key { e: "f64", expr: format!("avg({}){}", vec!["1"; 200_000].join(","), "+1".repeat(2500)), ph: Val::F(0.0) });
    let alone: Vec<String> = heavy.iter().map(|k| call(k.e, &k.expr, &k.ph).0.canon()).collect();
    out.stats.calls += heavy.len() as u64;
    let rounds = (n_par / threads.max(1) / 4).max(100);
    let barrier = std::sync::Barrier::new(threads);
    let bad: Vec<Vec<(usize, String, usize)>> = std::thread::scope(|sc| {
        let hs: Vec<_> = (0..threads).map(|t| {
            let (heavy, alone, barrier) = (&heavy, &alone, &barrier);
            sc.spawn(move || {
                let mut rng = Rng(seed ^ (t as u64 + 77).wrapping_mul(0x9E3779B97F4A7C15));
                let mut v = Vec::new();
                barrier.wait();
                for r in 0..rounds {
                    if t == 0 && r >= rounds / 8 { break; }                      // the holder's calls are long: fewer of them
                    let i = if t == 0 { holder } else { rng.below(holder) };
                    let k = &heavy[i];
                    let (o, _) = call(k.e, &k.expr, &k.ph);
                    if o.canon() != alone[i] { v.push((i, o.canon(), r)); }
                }
                v
            })
        }).collect();
        hs.into_iter().map(|h| h.join().unwrap()).collect()
    });
    out.stats.calls += (rounds * threads) as u64;
    for (t, v) in bad.iter().enumerate() {
        for (i, canon, r) in v {
            let k = &heavy[*i];
            let shown = if k.expr.chars().count() > 60 { format!("{}... ({} characters)", k.expr.chars().take(60).collect::<String>(), k.expr.chars().count()) } else { k.expr.clone() };
            out.finding("impure", k.e, &shown, &k.ph, &format!("the outcome of the same call made alone: {}", alone[*i]), &format!("{} (thread {}, round {}, {} threads busy with long calls)", canon, t + 1, r, threads), json!({"phase": "heavy-concurrent"}));
        }
    }
    // (e) duels: the same expression with two different placeholders, two threads on each, in a tight loop - whatever the library
    // might share between calls of one function (a memo of its last argument, a scratch buffer) is written by both at the same instant
    let mut groups: std::collections::BTreeMap<(&str, &str), Vec<usize>> = std::collections::BTreeMap::new();
    for (i, k) in pool.iter().enumerate() { groups.entry((k.e, k.expr.as_str())).or_default().push(i); }
    let mut duels: Vec<(usize, usize)> = Vec::new();
    for idx in groups.values() { for w in idx.windows(2) { if iso[w[0]] != iso[w[1]] { duels.push((w[0], w[1])); } } }
    let its = (n_par / 8).clamp(100, 400);
    for (a, b) in &duels {
        let bad: Vec<Vec<(usize, String, usize)>> = std::thread::scope(|sc| {
            let hs: Vec<_> = (0..4).map(|t| {
                let (pool, iso) = (&pool, &iso);
                let i = if t % 2 == 0 { *a } else { *b };
                sc.spawn(move || {
                    let mut v = Vec::new();
                    for r in 0..its {
                        let k = &pool[i];
                        let (o, _) = call(k.e, &k.expr, &k.ph);
                        if o.canon() != iso[i] && v.len() < 3 { v.push((i, o.canon(), r)); }
                    }
                    v
                })
            }).collect();
            hs.into_iter().map(|h| h.join().unwrap()).collect()
        });
        out.stats.calls += (4 * its) as u64;
        for (t, v) in bad.iter().enumerate() {
            for (i, canon, r) in v {
                let k = &pool[*i];
                out.finding("impure", k.e, &k.expr, &k.ph, &format!("the outcome of an isolated first-time evaluation: {}", iso[*i]),
                            &format!("{} (thread {}, iteration {}, while two threads evaluate the same expression with {})", canon, t + 1, r, pool[if *i == *a { *b } else { *a }].ph.show()), json!({"phase": "duel"}));
            }
        }
    }
    // (g) the same calls from caller frames of different depths on one thread (64 MiB of stack): shallow, 4 MiB deep, shallow again,
    // and on a second thread deep first - the outcome may depend on the expression and the placeholder only, not on where the caller's
    // stack happens to stand (nor on where it stood at an earlier call)
    {
        fn at_depth<R>(levels: usize, f: &mut dyn FnMut() -> R) -> R {
            let mut pad = [0u8; 65536];
            std::hint::black_box(&mut pad);
            let r = if levels == 0 { f() } else { at_depth(levels - 1, f) };
            std::hint::black_box(&mut pad);
            r
        }
        let pick: Vec<usize> = (0..pool.len()).filter(|i| pool[*i].expr.len() < 40).step_by(3).collect();
        let mut bad: Vec<(usize, String, &'static str)> = Vec::new();
        for deep_first in [false, true] {
            let b: Vec<(usize, String, &'static str)> = std::thread::scope(|sc| {
                std::thread::Builder::new().stack_size(64 << 20).spawn_scoped(sc, || {
                    let mut v = Vec::new();
                    let order: [(usize, &'static str); 3] = if deep_first { [(64, "from a frame 4 MiB deep, first call of the thread"), (0, "from a shallow frame after deep ones"), (64, "deep again")] }
                                                            else { [(0, "shallow"), (64, "from a frame 4 MiB deep after shallow ones"), (0, "shallow again")] };
                    for (levels, what) in order {
                        for &i in &pick {
                            let k = &pool[i];
                            let o = at_depth(levels, &mut || call(k.e, &k.expr, &k.ph).0);
                            if o.canon() != iso[i] { v.push((i, o.canon(), what)); }
                        }
                    }
                    v
                }).unwrap().join().unwrap()
            });
            bad.extend(b);
        }
        out.stats.calls += (pick.len() * 6) as u64;
        for (i, canon, what) in bad.into_iter().take(20) {
            let k = &pool[i];
            out.finding("impure", k.e, &k.expr, &k.ph, &format!("the outcome of an isolated first-time evaluation: {}", iso[i]), &format!("{} ({})", canon, what), json!({"phase": "stack-depth"}));
        }
    }
    // (f) after abuse: one thread evaluates pathological inputs far beyond ordinary sizes, over and over (1100 nested implicit
    // products, brackets, signs, calls; thousands of terms) - whatever the outcome - and then every key of the pool: a limit that is
    // consumed, a counter that is not rolled back on an error path, a buffer that keeps growing would show in the ordinary calls after
    if out.profile == "release" {
        let abuse: Vec<String> = vec![format!("2{}", "(1)".repeat(1100)), format!("{}1{}", "(".repeat(1100), ")".repeat(1100)), format!("{}1", "-".repeat(1100)),
                                      format!("1{}", "+1".repeat(1500)), format!("{}1{}", "abs(".repeat(600), ")".repeat(600)), format!("2{}", "!".repeat(1100)),
                                      format!("{}1{}", "max(1,".repeat(500), ")".repeat(500)), format!("2{}", "(1)".repeat(1100)) + ")", format!("{}1", "(".repeat(1100))];
        let reps = if n_par >= 100000 { 3000 } else { 1100 };
        let bad: Vec<(usize, String)> = std::thread::scope(|sc| {
            std::thread::Builder::new().stack_size(1 << 30).spawn_scoped(sc, || {
                for a in &abuse {
                    for e in ["f64"] {
                        let ph = crate::call::default_placeholder(e);
                        for _ in 0..reps { let _ = call(e, a, &ph); }
                    }
                }
                let mut v = Vec::new();
                for (i, k) in pool.iter().enumerate() {
                    let (o, _) = call(k.e, &k.expr, &k.ph);
                    if o.canon() != iso[i] { v.push((i, o.canon())); }
                }
                v
            }).unwrap().join().unwrap()
        });
        out.stats.calls += (abuse.len() * reps + pool.len()) as u64;
        for (i, canon) in bad {
            let k = &pool[i];
            out.finding("impure", k.e, &k.expr, &k.ph, &format!("the outcome of an isolated first-time evaluation: {}", iso[i]), &format!("{} (after {} evaluations of each of {} pathological inputs on the same thread)", canon, reps, abuse.len()), json!({"phase": "after-abuse"}));
        }
    }
    for k in 0..pool.len() { let key = h64(&(pool[k].e, &pool[k].expr, pool[k].ph.canon())); out.stats.distinct.insert(key); out.stats.nontrivial.insert(key); }
    out.stats.samples.push(json!({"keys": pool.len(), "example_key": {"e": pool[1].e, "expr": pool[1].expr, "ph": pool[1].ph.show()}, "sequential_calls": n_seq, "concurrent_calls": per * threads, "threads": threads}));
}

fn check(out: &mut Out, k: &Key, _i: usize, o: &Outcome, iso: &str, phase: &str) {
    match o {
        Outcome::Panic(m) => out.finding("panic", k.e, &k.expr, &k.ph, "Ok or Err", &format!("PANIC({})", m), json!({"phase": phase})),
        Outcome::Budget => out.finding("budget", k.e, &k.expr, &k.ph, "steps <= 4096+256*len", "step budget exceeded", json!({"phase": phase})),
        _ => {}
    }
    if o.canon() != iso {
        out.finding("impure", k.e, &k.expr, &k.ph, &format!("the outcome of an isolated first-time evaluation: {}", iso), &o.canon(), json!({"phase": phase}));
    }
}
