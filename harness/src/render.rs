//! Rendering of abstract token-kind sequences (from the specification) into concrete input strings,
//! together with the assignment of concrete spellings to token positions.
use crate::vocab::{concrete, sup_digits, Vocab};
use std::collections::BTreeMap;

#[derive(Clone, Debug, Default)]
pub struct Asg {
    /// position (1-based) -> literal text (without an imaginary suffix) and whether it is imaginary
    pub lits: BTreeMap<usize, (String, bool)>,
    /// position -> canonical function name (Vocab `fn`)
    pub fns: BTreeMap<usize, String>,
    /// position -> "PI" | "E"
    pub consts: BTreeMap<usize, String>,
    /// position -> digit string of the superscript run
    pub sups: BTreeMap<usize, String>,
}

#[derive(Clone, Debug)]
pub struct Rendered {
    pub text: String,
    pub asg: Asg,
    /// for each token position the concrete text it was rendered as
    pub pieces: Vec<String>,
}

#[derive(Clone, Debug)]
pub struct Policy {
    pub lits: Vec<String>,
    pub sups: Vec<String>,
    /// only functions from this list (canonical names); empty = every function the evaluator offers
    pub fns_allowed: Vec<String>,
    /// rotation offset: different offsets give different assignments
    pub offset: usize,
    /// insert whitespace between tokens
    pub spaces: bool,
    /// explicit pool index for the k-th literal of the sequence (exhaustive assignment); falls back to rotation
    pub fixed: Vec<usize>,
    /// when set: index of the keyword (in the evaluator's sorted list of that class) used for the first function token
    pub fn_first: Option<usize>,
}

pub fn reveal_lits(e: &str) -> Vec<String> {
    let v: &[&str] = match e {
        "f64" => &["2", "3", "5", "7", "0.5", "4", "1.5", "10", "6", "0.25"],
        "i64" => &["2", "3", "5", "7", "4", "1", "10", "6", "9", "8"],
        "dec" => &["2", "3", "5", "1.5", "0.5", "4", "7", "2.5", "10", "0.25"],
        "cpx" => &["2", "3i", "5", "0.5", "7i", "4", "1.5i", "i", "6", "8"],
        _ => &["2", "3", "5", "0.5", "7", "1.5", "4", "2.5", "10", "6"],
    };
    v.iter().map(|s| s.to_string()).collect()
}
pub fn reveal_sups() -> Vec<String> { ["2", "3", "1", "0", "4"].iter().map(|s| s.to_string()).collect() }

/// functions whose value is exact (or identically rounded by definition) on the reveal pools
pub fn exact_fns(e: &str) -> Vec<String> {
    let v: &[&str] = match e {
        "f64" | "num" => &["Abs", "Floor", "Ceil", "Truncate", "Round", "Sign", "Sqrt", "Mod", "Pow", "Min", "Max", "Med", "Avg"],
        "dec" => &["Abs", "Floor", "Ceil", "Truncate", "Round", "Sign", "Mod", "Min", "Max", "Med", "Avg"],
        "i64" => &["Abs", "Sign", "Mod", "Pow", "Min", "Max", "Med", "Avg", "Gcd", "Lcm"],
        _ => &["Abs", "Pow", "Sqrt", "Exp", "Ln", "Log", "Root", "Sin", "Cosh"],
    };
    v.iter().map(|s| s.to_string()).collect()
}

impl Policy {
    pub fn reveal(e: &str, offset: usize) -> Policy {
        Policy { lits: reveal_lits(e), sups: reveal_sups(), fns_allowed: exact_fns(e), offset, spaces: false, fixed: vec![], fn_first: None }
    }
    pub fn all_fns(e: &str, offset: usize) -> Policy {
        Policy { lits: reveal_lits(e), sups: reveal_sups(), fns_allowed: vec![], offset, spaces: false, fixed: vec![], fn_first: None }
    }
}

pub fn split_lit(l: &str) -> (String, bool) {
    if let Some(s) = l.strip_suffix('i') {
        if s.is_empty() { ("1".to_string(), true) } else { (s.to_string(), true) }
    } else { (l.to_string(), false) }
}

/// Render a kind sequence for evaluator `e`. Returns None when a kind has no spelling in `e`
/// under the policy (e.g. no allowed function of the class).
pub fn render(v: &Vocab, e: &str, kinds: &[String], pol: &Policy) -> Option<Rendered> {
    let mut text = String::new();
    let mut asg = Asg::default();
    let mut pieces = Vec::new();
    let mut nlit = pol.offset;
    let mut nsup = pol.offset;
    let mut nfn = pol.offset;
    let mut ncst = pol.offset;
    for (i0, k) in kinds.iter().enumerate() {
        let p = i0 + 1;
        let piece: String = match k.as_str() {
            "num" => {
                let k = nlit - pol.offset;
                let l = if k < pol.fixed.len() { &pol.lits[pol.fixed[k] % pol.lits.len()] } else { &pol.lits[nlit % pol.lits.len()] };
                nlit += 1;
                let (t, im) = split_lit(l);
                asg.lits.insert(p, (t, im));
                l.clone()
            }
            "sup" => {
                let d = &pol.sups[nsup % pol.sups.len()];
                nsup += 1;
                asg.sups.insert(p, d.clone());
                sup_digits(d)
            }
            "const" => {
                ncst += 1;
                match ncst % 3 {
                    0 => { asg.consts.insert(p, "PI".into()); "pi".into() }
                    1 => { asg.consts.insert(p, "E".into()); "e".into() }
                    _ => { asg.consts.insert(p, "PI".into()); "π".into() }
                }
            }
            "f1" | "f2" | "fv" | "fa" => {
                let ks: Vec<_> = v.keywords_of(e, k).into_iter()
                    .filter(|kw| pol.fns_allowed.is_empty() || pol.fns_allowed.contains(&kw.func)).collect();
                if ks.is_empty() { return None; }
                let kw = match pol.fn_first { Some(i) if nfn == pol.offset => ks[i % ks.len()], _ => ks[nfn % ks.len()] };
                nfn += 1;
                asg.fns.insert(p, kw.func.clone());
                kw.name.clone()
            }
            "shl" => "<<".into(),
            "shr" => ">>".into(),
            "rad" => "rad".into(),
            "bad" => "#".into(),
            other => {
                let cs = v.single_char_of(e, other);
                if cs.is_empty() { return None; }
                concrete(&cs[0])
            }
        };
        if pol.spaces && !text.is_empty() { text.push(' '); }
        text.push_str(&piece);
        pieces.push(piece);
    }
    Some(Rendered { text, asg, pieces })
}
