//! C10: every (evaluator, spelling) pair that spec/MCVocab.tla enumerates, applied to argument samples drawn
//! densely over the function's domain (edges, large and negative arguments), against the reference
//! interpreter (exact functions bit/variant-exact, the others within 1e-9 relative; eval_i64's real-valued
//! functions within 1) and against defining identities (w*e^w = x, x! = x*(x-1)!).
use crate::call::call;
use crate::engine::{checked_call, h64, Out, Rng};
use crate::expect::expected;
use crate::render::Asg;
use crate::tree::T;
use crate::val::{Outcome, Val};
use crate::vocab::concrete;
use num_complex::Complex;
use rust_decimal::prelude::*;
use serde_json::{json, Value};
use string_calculator::Number;

fn samples_f64(rng: &mut Rng, n: usize) -> Vec<f64> {
    let mut v: Vec<f64> = vec![0.0, -0.0, 1.0, -1.0, 0.5, -0.5, 2.0, -2.0, 0.25, 3.0, 10.0, 100.0, 1e-9, -1e-9, 1e9, -1e9, 0.9999999, 1.0000001, -0.9999999, 20.0, 21.0, 22.0,
                           170.0, 171.0, 150.5, -149.5, 0.36787944117144233, -0.36787944117144233, -0.3, 2.718281828459045, 3.141592653589793, 1.5707963267948966, 12.5, -7.25, 1e-300, 1e300,
                           2.5, -2.5, 3.5, -3.5, 0.1, 4.0, 9.0, 16.0, 1000.0, 1e6, 0.7, -0.7, 4.5, 5.5, -1.5, 1.5, 6.0, 27.0, 64.0, 1e15, 123456.789,
                           // neighbours of the rounding ties and of 2^52 / 2^53 (where x + 0.5 is itself rounded)
                           0.49999999999999994, -0.49999999999999994, 0.5000000000000001, 1.4999999999999998, 2.4999999999999996, -2.4999999999999996,
                           4503599627370495.5, 4503599627370496.0, 4503599627370497.0, -4503599627370497.0, 9007199254740991.0, 9007199254740993.0, 4503599627370495.0,
                           1e-5, -1e-5, 1e-7, 0.99, -0.99, 1.01, 50.0, 700.0, -700.0, 355.0, 1e-3,
                           // arguments whose function value is tiny (logarithms next to 1, differences next to a root)
                           1.0000000000005, 0.9999999999995, 1.000000000000002, 0.9999999999999998, 1.00000000001, 9223372036854775808.0, 4294967296.0];
    for _ in 0..n {
        let r = rng.next();
        let mag = match r % 5 { 0 => 1.0, 1 => 10.0, 2 => 150.0, 3 => 1e-3, _ => 1e4 };
        let u = ((r >> 11) as f64) / ((1u64 << 53) as f64);       // [0,1)
        let x = (2.0 * u - 1.0) * mag;
        v.push(if r % 7 == 0 { x.round() } else if r % 11 == 0 { (x * 2.0).round() / 2.0 } else { x });
    }
    v
}

/// the placeholders through which the sample x reaches evaluator e (eval_number: an integral value both as Integer and as Float)
fn phs_of(e: &str, x: f64) -> Vec<Val> {
    if e == "num" && x.fract() == 0.0 && x.abs() < 9e18 { return vec![Val::N(Number::Integer(x as i64)), Val::N(Number::Float(x))]; }
    ph_of(e, x).into_iter().collect()
}

fn ph_of(e: &str, x: f64) -> Option<Val> {
    match e {
        "f64" => Some(Val::F(x)),
        "num" => Some(Val::N(if x.fract() == 0.0 && x.abs() < 9e18 && (x.to_bits() >> 3) % 2 == 0 { Number::Integer(x as i64) } else { Number::Float(x) })),
        "i64" => if x.fract() == 0.0 && x.abs() < 9e18 { Some(Val::I(x as i64)) } else { None },
        "dec" => if x == 0.0 && x.is_sign_negative() { None } else { Decimal::from_f64_retain(x).filter(|d| d.scale() <= 20 && x.abs() < 1e20 && x.abs() > 1e-20 || x == 0.0).map(Val::D) },
        _ => Some(Val::C(Complex::new(x, 0.0))),
    }
}

fn dec_extremes() -> Vec<Val> {
    let one = Decimal::ONE;
    let ulp = Decimal::new(1, 28);
    vec![Decimal::MAX, Decimal::MIN, ulp, -ulp, one + ulp + ulp, one - ulp - ulp, one + ulp, Decimal::new(i64::MAX, 0), Decimal::new(1, 14), Decimal::new(1000000000000, 0),
         Decimal::MAX / Decimal::new(2, 0), Decimal::new(5, 1)].into_iter().map(Val::D).collect()
}

fn lit_text(x: f64) -> Option<String> {
    let s = format!("{}", x.abs());
    if s.contains('e') || s.contains("inf") || s.contains("NaN") || s.parse::<f64>().ok()? != x.abs() { return None; }
    Some(s)
}

pub fn replay_item(out: &mut Out, bv: &Value, rng: &mut Rng, n: usize) {
    let e = bv["e"].as_str().unwrap();
    let it = &bv["item"];
    let (kind, name, func, cls) = (it["kind"].as_str().unwrap(), it["name"].as_str().unwrap(), it["fn"].as_str().unwrap(), it["cls"].as_str().unwrap());
    let xs = samples_f64(rng, n);
    let ctx = json!({"e": e, "item": it});
    match kind {
        "const" => {
            let text = concrete(name);
            let mut asg = Asg::default();
            asg.consts.insert(1, func.to_string());
            let ph = crate::call::default_placeholder(e);
            let exp = expected(e, &T::Const(1), &asg, &ph);
            checked_call(out, e, &text, &ph, Some(&exp), json!({"v": "accept"}), true, &ctx);
        }
        "postfix" => {
            for (x, ph) in xs.iter().flat_map(|x| phs_of(e, *x).into_iter().map(move |p| (x, p))) {
                let (text, t) = match name { "bang" => ("@!", T::Fact(Box::new(T::Ans(1)))), "deg" => ("@°", T::Deg(Box::new(T::Ans(1)))), _ => ("@rad", T::Rad(Box::new(T::Ans(1)))) };
                let exp = expected(e, &t, &Asg::default(), &ph);
                let o = checked_call(out, e, text, &ph, Some(&exp), json!({"v": "accept"}), true, &ctx);
                // chains of the postfix operator: x!!, (x!)!, x°°, x rad rad - each application on the result of the previous one
                let (t2, text2, text3) = match name {
                    "bang" => (T::Fact(Box::new(T::Fact(Box::new(T::Ans(1))))), "@!!", "(@!)!"),
                    "deg" => (T::Deg(Box::new(T::Deg(Box::new(T::Ans(1))))), "@°°", "(@°)°"),
                    _ => (T::Rad(Box::new(T::Rad(Box::new(T::Ans(1))))), "@radrad", "(@rad)rad"),
                };
                if x.abs() <= 6.0 || name != "bang" {
                    let exp2 = expected(e, &t2, &Asg::default(), &ph);
                    checked_call(out, e, text2, &ph, Some(&exp2), json!({"v": "accept"}), true, &ctx);
                    checked_call(out, e, text3, &ph, Some(&exp2), json!({"v": "accept"}), true, &ctx);
                }
                // recurrence x! = x * (x-1)! on non-integers (an identity, independent of the Gamma oracle)
                if name == "bang" && (e == "f64") && (x - x.round()).abs() >= 0.01 && x.abs() < 100.0 && *x > -99.0 {
                    if let (Outcome::Ok(Val::F(a)), (Outcome::Ok(Val::F(b)), _)) = (&o, call(e, "@!", &Val::F(*x - 1.0))) {
                        out.stats.calls += 1;
                        if a.is_finite() && b.is_finite() && (a - x * b).abs() > 1e-9 * a.abs().max((x * b).abs()) + 1e-300 {
                            out.finding("value", e, "@!", &ph, &format!("x! = x*(x-1)!: {} * {}", x, b), &format!("{}", a), ctx.clone());
                        }
                    }
                }
            }
        }
        _ => {
            let spell = name;
            if cls == "f1" {
                // the function of a simple operator expression of the placeholder (a rewrite that looks through the argument -
                // sqrt(x^2) = |x| - loses the overflow, underflow or rounding of the inner operation)
                if e != "i64" {
                    let inner: [(&str, fn() -> T); 8] = [
                        ("@^2", || T::Bin("pow".into(), Box::new(T::Ans(3)), Box::new(T::Num(5)))),
                        ("@²", || T::PSup(Box::new(T::Ans(3)), 4)),
                        ("@*@", || T::Bin("mul".into(), Box::new(T::Ans(3)), Box::new(T::Ans(5)))),
                        ("@/2", || T::Bin("div".into(), Box::new(T::Ans(3)), Box::new(T::Num(5)))),
                        ("2/@", || T::Bin("div".into(), Box::new(T::Num(3)), Box::new(T::Ans(5)))),
                        ("@+2", || T::Bin("add".into(), Box::new(T::Ans(3)), Box::new(T::Num(5)))),
                        ("@-@", || T::Bin("sub".into(), Box::new(T::Ans(3)), Box::new(T::Ans(5)))),
                        ("-@", || T::Neg(Box::new(T::Ans(4)))),
                    ];
                    for x in [1e200f64, -1e200, 1e-200, 1.5e154, 1e-160, 3.0, -0.5, 0.0, 9007199254740993.0, 1e19] {
                        for ph in phs_of(e, x) {
                            for (txt, mk) in inner.iter() {
                                let mut asg = Asg::default();
                                asg.fns.insert(1, func.to_string());
                                asg.lits.insert(5, ("2".to_string(), false));
                                asg.lits.insert(3, ("2".to_string(), false));
                                asg.sups.insert(4, "2".to_string());
                                let t = T::Call("f1".into(), 1, vec![mk()]);
                                let exp = expected(e, &t, &asg, &ph);
                                checked_call(out, e, &format!("{}({})", spell, txt), &ph, Some(&exp), json!({"v": "accept"}), true, &ctx);
                            }
                        }
                    }
                }
                // eval_complex: next to the branch points +-1 and +-i (a series or a logarithm form that is good on one side of a
                // threshold loses its digits there), off the cuts
                if e == "cpx" {
                    for (br, bi) in [(1.0f64, 0.0f64), (-1.0, 0.0), (0.0, 1.0), (0.0, -1.0)] {
                        for d in [3e-5f64, 1e-5, 3e-6, 1e-6, 1e-7, 1e-9] {
                            for tang in [3.0f64, 0.0] {
                                // radially inward by d, tangentially by 3d (tang = 0: on the axis, inside the disc)
                                let z = Complex::new(br * (1.0 - d) - bi * tang * d, bi * (1.0 - d) + br * tang * d);
                                let ph = Val::C(z);
                                let mut asg = Asg::default();
                                asg.fns.insert(1, func.to_string());
                                let t = T::Call("f1".into(), 1, vec![T::Ans(3)]);
                                let exp = expected(e, &t, &asg, &ph);
                                checked_call(out, e, &format!("{}(@)", spell), &ph, Some(&exp), json!({"v": "accept"}), true, &ctx);
                            }
                        }
                    }
                }
                // integers that are not doubles, of either sign, and the ends of the range (eval_i64; also as Integers of eval_number)
                if e == "i64" || e == "num" {
                    for n in [9007199254740993i64, -9007199254740993, i64::MAX, i64::MIN, i64::MIN + 1, i64::MAX - 1, 4611686018427387903, -4611686018427387905, 1234567890123456789, -1234567890123456789] {
                        let ph = if e == "i64" { Val::I(n) } else { Val::N(Number::Integer(n)) };
                        let mut asg = Asg::default();
                        asg.fns.insert(1, func.to_string());
                        let t = T::Call("f1".into(), 1, vec![T::Ans(3)]);
                        let exp = expected(e, &t, &asg, &ph);
                        checked_call(out, e, &format!("{}(@)", spell), &ph, Some(&exp), json!({"v": "accept"}), true, &ctx);
                    }
                }
                // the ends of the Decimal format (no double reaches them): largest, smallest, the neighbours of 1 and of 0
                if e == "dec" {
                    for ph in dec_extremes() {
                        let mut asg = Asg::default();
                        asg.fns.insert(1, func.to_string());
                        let t = T::Call("f1".into(), 1, vec![T::Ans(3)]);
                        let exp = expected(e, &t, &asg, &ph);
                        checked_call(out, e, &format!("{}(@)", spell), &ph, Some(&exp), json!({"v": "accept"}), true, &ctx);
                    }
                }
                for (x, ph) in xs.iter().flat_map(|x| phs_of(e, *x).into_iter().map(move |p| (x, p))) {
                    let mut asg = Asg::default();
                    asg.fns.insert(1, func.to_string());
                    let t = T::Call("f1".into(), 1, vec![T::Ans(3)]);
                    let text = format!("{}(@)", spell);
                    if func == "LambertW" {
                        // decided by the defining identity: w * e^w = x and w >= -1, for every finite x >= -1/e
                        let (o, _) = call(e, &text, &ph);
                        out.stats.calls += 1;
                        let key = h64(&(e, &text, ph.canon())); out.stats.distinct.insert(key); out.stats.nontrivial.insert(key);
                        let w = match &o { Outcome::Ok(Val::F(w)) => Some(*w), Outcome::Ok(Val::N(Number::Float(w))) => Some(*w), Outcome::Ok(Val::N(Number::Integer(w))) => Some(*w as f64),
                                           Outcome::Ok(Val::D(d)) => d.to_f64(), _ => None };
                        let em1 = (-1.0f64).exp();
                        if x.is_finite() && *x >= -em1 {
                            let ok = match w { Some(w) => w >= -1.0 - 1e-9 && ((w * w.exp() - x).abs() <= 1e-9 * x.abs().max(1e-300) || (*x == 0.0 && w == 0.0)), None => false };
                            if !ok { out.finding(if o.is_err() { "err_on_defined" } else { "value" }, e, &text, &ph, "w with w*e^w = x (1e-9 relative) and w >= -1", &o.show(), ctx.clone()); }
                        } else if !o.returned() { out.finding("panic", e, &text, &ph, "Ok or Err", &o.show(), ctx.clone()); }
                        continue;
                    }
                    let exp = expected(e, &t, &asg, &ph);
                    checked_call(out, e, &text, &ph, Some(&exp), json!({"v": "accept"}), true, &ctx);
                }
            } else if cls == "f2" {
                let ys = [2.0f64, 3.0, 0.5, 10.0, -2.0, 1.0, 0.0, 7.0, 1.5, -1.0, 2.718281828459045, 100.0];
                for (i, x) in xs.iter().enumerate() {
                    let y = ys[i % ys.len()];
                    let ph = match ph_of(e, *x) { Some(p) => p, None => continue };
                    let ly = match lit_text(y) { Some(l) => l, None => continue };
                    if e == "i64" && y.fract() != 0.0 { continue; }
                    let mut asg = Asg::default();
                    asg.fns.insert(1, func.to_string());
                    asg.lits.insert(5, (ly.clone(), false));
                    let litnode = if y < 0.0 { T::Neg(Box::new(T::Num(5))) } else { T::Num(5) };
                    let lt = if y < 0.0 { format!("-{}", ly) } else { ly.clone() };
                    for swap in [false, true] {
                        let (t, text) = if !swap { (T::Call("f2".into(), 1, vec![T::Ans(3), litnode.clone()]), format!("{}(@,{})", spell, lt)) }
                                        else { (T::Call("f2".into(), 1, vec![litnode.clone(), T::Ans(3)]), format!("{}({},@)", spell, lt)) };
                        let exp = expected(e, &t, &asg, &ph);
                        checked_call(out, e, &text, &ph, Some(&exp), json!({"v": "accept"}), true, &ctx);
                    }
                }
                if e == "dec" {
                    let lits = ["1.0000000000000000000000000002", "0.9999999999999999999999999998", "0.0000000000000000000000000001", "79228162514264337593543950335", "2", "1", "10"];
                    for ph in dec_extremes() {
                        for l in lits {
                            let mut asg = Asg::default();
                            asg.fns.insert(1, func.to_string());
                            asg.lits.insert(5, (l.to_string(), false));
                            for (t, text) in [(T::Call("f2".into(), 1, vec![T::Ans(3), T::Num(5)]), format!("{}(@,{})", spell, l)),
                                              (T::Call("f2".into(), 1, vec![T::Num(5), T::Ans(3)]), format!("{}({},@)", spell, l))] {
                                let exp = expected(e, &t, &asg, &ph);
                                checked_call(out, e, &text, &ph, Some(&exp), json!({"v": "accept"}), true, &ctx);
                            }
                        }
                    }
                }
                // every pair of boundary arguments (both zero, both extreme, mixed signs, the unit, a half)
                {
                    let lits = ["0", "1", "2", "0.5", "10", "63", "64", "9223372036854775807", "4294967296"];
                    for x in [0.0f64, -0.0, 1.0, -1.0, 2.0, -2.0, 0.5, -0.5, 10.0, 64.0, 9223372036854775807.0, -9223372036854775808.0, f64::INFINITY, f64::NAN] {
                        if !x.is_finite() && (e == "i64" || e == "dec") { continue; }
                        let phs: Vec<Val> = match e {
                            "i64" if x == 9223372036854775807.0 => vec![Val::I(i64::MAX)],
                            "i64" if x == -9223372036854775808.0 => vec![Val::I(i64::MIN)],
                            "num" if x == 9223372036854775807.0 => vec![Val::N(Number::Integer(i64::MAX)), Val::N(Number::Float(x))],
                            "num" if x == -9223372036854775808.0 => vec![Val::N(Number::Integer(i64::MIN)), Val::N(Number::Float(x))],
                            "f64" | "num" | "cpx" if !x.is_finite() => ph_of(e, x).into_iter().collect(),
                            _ => phs_of(e, x),
                        };
                        for ph in phs {
                            for l in lits {
                                if e == "i64" && l.contains('.') { continue; }
                                for neg in [false, true] {
                                    let mut asg = Asg::default();
                                    asg.fns.insert(1, func.to_string());
                                    asg.lits.insert(5, (l.to_string(), false));
                                    let litnode = if neg { T::Neg(Box::new(T::Num(5))) } else { T::Num(5) };
                                    let lt = if neg { format!("-{}", l) } else { l.to_string() };
                                    for (t, text) in [(T::Call("f2".into(), 1, vec![T::Ans(3), litnode.clone()]), format!("{}(@,{})", spell, lt)),
                                                      (T::Call("f2".into(), 1, vec![litnode.clone(), T::Ans(3)]), format!("{}({},@)", spell, lt)),
                                                      (T::Call("f2".into(), 1, vec![T::Ans(3), T::Ans(3)]), format!("{}(@,@)", spell))] {
                                        let exp = expected(e, &t, &asg, &ph);
                                        checked_call(out, e, &text, &ph, Some(&exp), json!({"v": "accept"}), true, &ctx);
                                    }
                                }
                            }
                        }
                    }
                }
                // powers on a grid: bases below and above 1, whole exponents far from 0 in both directions (the intermediate of a
                // reciprocal power loses its digits), as function and as operator
                if func == "Pow" {
                    let bases = ["0.5", "0.3", "0.1", "0.999", "2", "1.5", "10", "0.25", "3", "0", "1"];
                    let exps = [-92.0f64, -50.0, -28.0, -10.0, -3.0, -1.0, 0.0, 1.0, 3.0, 10.0, 30.0, 64.0, 92.0, 0.5, -0.5, 2.5, -2.5,
                                // the ends of the exponent range of the integer power (u32)
                                4294967295.0, 4294967296.0, 4294967297.0, 8589934592.0, 2147483648.0];
                    // negative bases: whole exponents of either sign and parity (the sign of the result is the parity's); for eval_complex every exponent
                    for b in ["2", "0.5", "3", "10"] {
                        for x in exps {
                            if e != "cpx" && x.fract() != 0.0 { continue; }
                            if e == "i64" && b.contains('.') { continue; }
                            for ph in phs_of(e, x) {
                                let mut asg = Asg::default();
                                asg.fns.insert(1, func.to_string());
                                asg.lits.insert(4, (b.to_string(), false));
                                asg.lits.insert(3, (b.to_string(), false));
                                let t = T::Call("f2".into(), 1, vec![T::Neg(Box::new(T::Num(4))), T::Ans(6)]);
                                let exp = expected(e, &t, &asg, &ph);
                                checked_call(out, e, &format!("{}(-{},@)", spell, b), &ph, Some(&exp), json!({"v": "accept"}), true, &ctx);
                                let t = T::Bin("pow".into(), Box::new(T::Grp("lp".into(), Box::new(T::Neg(Box::new(T::Num(3)))))), Box::new(T::Ans(6)));
                                let exp = expected(e, &t, &asg, &ph);
                                checked_call(out, e, &format!("(-{})^@", b), &ph, Some(&exp), json!({"v": "accept"}), true, &ctx);
                            }
                        }
                    }
                    for b in bases {
                        for x in exps {
                            if e == "i64" && (x.fract() != 0.0 || b.contains('.')) { continue; }
                            for ph in phs_of(e, x) {
                                let mut asg = Asg::default();
                                asg.fns.insert(1, func.to_string());
                                asg.lits.insert(3, (b.to_string(), false));
                                asg.lits.insert(1, (b.to_string(), false));
                                let t = T::Call("f2".into(), 1, vec![T::Num(3), T::Ans(5)]);
                                let exp = expected(e, &t, &asg, &ph);
                                checked_call(out, e, &format!("{}({},@)", spell, b), &ph, Some(&exp), json!({"v": "accept"}), true, &ctx);
                                let t = T::Bin("pow".into(), Box::new(T::Num(1)), Box::new(T::Ans(3)));
                                let exp = expected(e, &t, &asg, &ph);
                                checked_call(out, e, &format!("{}^@", b), &ph, Some(&exp), json!({"v": "accept"}), true, &ctx);
                            }
                        }
                    }
                }
            } else {
                // variadic: one, two and three arguments around the sample
                for (i, x) in xs.iter().enumerate().take(n.min(60) + 20) {
                    let ph = match ph_of(e, *x) { Some(p) => p, None => continue };
                    let mut asg = Asg::default();
                    asg.fns.insert(1, func.to_string());
                    asg.lits.insert(5, ("2".into(), false));
                    asg.lits.insert(6, ("7".into(), false));
                    let (t, text) = match i % 3 { 0 => (T::Call(cls.into(), 1, vec![T::Ans(3)]), format!("{}(@)", spell)),
                                                  1 => (T::Call(cls.into(), 1, vec![T::Num(5), T::Ans(3)]), format!("{}(2,@)", spell)),
                                                  _ => (T::Call(cls.into(), 1, vec![T::Ans(3), T::Num(6), T::Num(5)]), format!("{}(@,7,2)", spell)) };
                    let exp = expected(e, &t, &asg, &ph);
                    checked_call(out, e, &text, &ph, Some(&exp), json!({"v": "accept"}), true, &ctx);
                }
                // every pair and some triples over the boundary values (two zeros, two extremes, mixed signs)
                let lits = ["0", "1", "2", "6", "9223372036854775807"];
                for x in [0.0f64, 1.0, -1.0, 2.0, -6.0, 9223372036854775807.0, -9223372036854775808.0, 0.5] {
                    for ph in phs_of(e, x) {
                        let ph = match (&ph, e) { (Val::I(_), _) if x == 9223372036854775807.0 => Val::I(i64::MAX), (Val::I(_), _) if x == -9223372036854775808.0 => Val::I(i64::MIN),
                                                  (Val::N(Number::Integer(_)), _) if x == 9223372036854775807.0 => Val::N(Number::Integer(i64::MAX)),
                                                  (Val::N(Number::Integer(_)), _) if x == -9223372036854775808.0 => Val::N(Number::Integer(i64::MIN)), _ => ph };
                        for l in lits {
                            let mut asg = Asg::default();
                            asg.fns.insert(1, func.to_string());
                            asg.lits.insert(5, (l.to_string(), false));
                            for (t, text) in [(T::Call(cls.into(), 1, vec![T::Ans(3), T::Num(5)]), format!("{}(@,{})", spell, l)),
                                              (T::Call(cls.into(), 1, vec![T::Num(5), T::Ans(3)]), format!("{}({},@)", spell, l)),
                                              (T::Call(cls.into(), 1, vec![T::Ans(3), T::Ans(3)]), format!("{}(@,@)", spell)),
                                              (T::Call(cls.into(), 1, vec![T::Ans(3), T::Num(5), T::Ans(3)]), format!("{}(@,{},@)", spell, l))] {
                                let exp = expected(e, &t, &asg, &ph);
                                checked_call(out, e, &text, &ph, Some(&exp), json!({"v": "accept"}), true, &ctx);
                            }
                        }
                    }
                }
            }
        }
    }
    if out.stats.samples.len() < 8 { out.stats.samples.push(json!({"e": e, "spelling": name, "function": func, "class": cls})); }
}

/// every ordered pair of one-argument functions of evaluator e, nested: f(g(@)) on an operand pool (for eval_complex: generic
/// operands incl. imaginary parts beyond pi, where ln(exp z) != z) - against the reference evaluation of the two-node tree
pub fn nested_pairs(out: &mut Out, v: &crate::vocab::Vocab, e: &str) {
    let mut fns: Vec<(String, String)> = Vec::new();           // (canonical function, one spelling)
    for k in v.keywords_of(e, "f1") { if !fns.iter().any(|(f, _)| *f == k.func) { fns.push((k.func.clone(), k.name.clone())); } }
    let phs: Vec<Val> = match e {
        "cpx" => [(1.0, 4.0), (-2.0, -5.0), (0.5, 7.0), (0.3, 0.7), (-1.2, 0.4), (2.5, -1.5), (0.05, 3.0), (1e-5, 2e-5)].iter().map(|(a, b)| Val::C(Complex::new(*a, *b))).collect(),
        "f64" => [0.5, 2.0, -0.7, 1.5, 10.0, 1e-3, 4.2, -3.3, 0.0, 1.0000000000005].iter().map(|x| Val::F(*x)).collect(),
        "num" => vec![Val::N(Number::Float(0.5)), Val::N(Number::Integer(2)), Val::N(Number::Float(-0.7)), Val::N(Number::Float(1.5)), Val::N(Number::Integer(10)), Val::N(Number::Float(4.2)), Val::N(Number::Integer(0)), Val::N(Number::Integer(-3))],
        "dec" => vec![Val::D(Decimal::new(5, 1)), Val::D(Decimal::new(2, 0)), Val::D(Decimal::new(15, 1)), Val::D(Decimal::new(10, 0)), Val::D(Decimal::new(42, 1)), Val::D(Decimal::new(-7, 1))],
        _ => vec![Val::I(2), Val::I(10), Val::I(0), Val::I(-3), Val::I(1000000), Val::I(64)],
    };
    let mut n = 0u64;
    for (fo, so) in &fns {
        for (fi, si) in &fns {
            n += 1;
            out.heartbeat(n);
            out.stats.items += 1;
            let mut asg = Asg::default();
            asg.fns.insert(1, fo.clone());
            asg.fns.insert(2, fi.clone());
            let t = T::Call("f1".into(), 1, vec![T::Call("f1".into(), 2, vec![T::Ans(3)])]);
            let text = format!("{}({}(@))", so, si);
            let ctx = json!({"e": e, "outer": fo, "inner": fi});
            for ph in &phs {
                let exp = expected(e, &t, &asg, ph);
                checked_call(out, e, &text, ph, Some(&exp), json!({"v": "accept"}), true, &ctx);
            }
        }
    }
}

/// C03 "a function name that this evaluator does not offer yields Err": near misses of every keyword - one letter inserted,
/// deleted, replaced or two neighbours swapped - applied to arguments.  The harness does not judge them (it has no lexer of its own):
/// every call is recorded, and the trace specification (CalcTrace!StatusOK) requires Err wherever the specification rejects.
pub fn near_miss_names(out: &mut Out, v: &crate::vocab::Vocab, e: &str, rng: &mut Rng, n: usize) {
    let letters: Vec<char> = "abcdeghilmnopqrstuwx_2".chars().collect();
    let mut names: Vec<(String, String)> = Vec::new();
    for k in v.keywords.iter() { if !names.iter().any(|(x, _)| *x == k.name) { names.push((k.name.clone(), k.cls.clone())); } }
    let ph = crate::call::default_placeholder(e);
    // every name with something else in the place of its opening bracket, the rest of the call left standing (`w*1)`, `max,1,2)`):
    // a name is a function token only directly before `(`
    for (name, cls) in &names {
        for rep in ["*", ")", "+", ",", "⌊", "2", "", "((", "^"] {
            let rest = match cls.as_str() { "f2" => "2,3)", "fv" | "fa" => "2,3,1)", _ => "1)" };
            for text in [format!("{}{}{}", name, rep, rest), format!("2+{}{}{}", name, rep, rest)] {
                if rep == "((" && text.matches('(').count() != text.matches(')').count() + 1 { continue; }
                let (o, t) = crate::call::call(e, &text, &ph);
                out.stats.calls += 1;
                out.note_ticks(&text, &t);
                let key = h64(&("nobracket", e, &text)); out.stats.distinct.insert(key); out.stats.nontrivial.insert(key);
                if !o.returned() { out.finding("panic", e, &text, &ph, "Ok or Err", &o.show(), json!({"name_without_bracket": name})); }
                out.stats.events += 1;
                out.event(e, &text, &ph, &o, &t, json!({"v": "unclaimed"}), true);
            }
        }
    }
    for i in 0..n {
        out.heartbeat(i as u64);
        out.stats.items += 1;
        let (name, cls) = &names[rng.below(names.len())];
        let mut cs: Vec<char> = name.chars().collect();
        let pos = rng.below(cs.len() + 1);
        match rng.below(4) {
            0 => cs.insert(pos, letters[rng.below(letters.len())]),
            1 => { if cs.len() > 1 { cs.remove(pos.min(cs.len() - 1)); } }
            2 => { let p = pos.min(cs.len() - 1); cs[p] = letters[rng.below(letters.len())]; }
            _ => { if cs.len() > 1 { let p = pos.min(cs.len() - 2); cs.swap(p, p + 1); } }
        }
        let cand: String = cs.into_iter().collect();
        let args = match cls.as_str() { "f2" => "(2,3)", "fv" | "fa" => if rng.below(2) == 0 { "(2,3,1)" } else { "(2)" }, _ => if e == "cpx" { "(0.5)" } else { "(1)" } };
        let text = match rng.below(3) { 0 => format!("{}{}", cand, args), 1 => format!("2*{}{}+1", cand, args), _ => format!("{}{}", cand, args.replace("(", "(-")) };
        let (o, t) = crate::call::call(e, &text, &ph);
        out.stats.calls += 1;
        out.note_ticks(&text, &t);
        let key = h64(&("nearmiss", e, &text)); out.stats.distinct.insert(key); out.stats.nontrivial.insert(key);
        if !o.returned() { out.finding("panic", e, &text, &ph, "Ok or Err", &o.show(), json!({"near_miss_of": name})); }
        out.stats.events += 1;
        out.event(e, &text, &ph, &o, &t, json!({"v": "unclaimed"}), true);
        if out.stats.samples.len() < 6 && i % 397 == 5 { out.stats.samples.push(json!({"e": e, "near_miss_of": name, "input": text, "outcome": o.show()})); }
    }
}
