//! The syntax tree the code's parser really built (Debug form, kept by the cfg-guarded hook `event_tree`) against the tree of the
//! specification's parser definition (ParseFn), in the code's vocabulary: spec/AstShape.tla, transcribed here for direction A and
//! checked by TLC on every recorded event for direction B (CalcTrace!AstOK).
use crate::render::Asg;
use crate::tree::T;
use serde_json::{json, Value};

/// shape of a `Debug`-printed Node: variant names, children in order; literal payloads dropped, argument lists spliced in
pub fn shape_of_debug(s: &str) -> Option<Value> {
    let b: Vec<char> = s.chars().collect();
    let mut p = 0usize;
    let v = node(&b, &mut p)?;
    skip_ws(&b, &mut p);
    if p == b.len() { Some(v) } else { None }
}

fn skip_ws(b: &[char], p: &mut usize) { while *p < b.len() && b[*p].is_whitespace() { *p += 1; } }

fn node(b: &[char], p: &mut usize) -> Option<Value> {
    skip_ws(b, p);
    let s = *p;
    while *p < b.len() && (b[*p].is_alphanumeric() || b[*p] == '_') { *p += 1; }
    if *p == s { return None; }
    let name: String = b[s..*p].iter().collect();
    skip_ws(b, p);
    if *p >= b.len() || b[*p] != '(' { return None; }
    if name == "Number" || name == "Num" {
        // the payload (a number, `Integer(3)`, `Complex { re: .., im: .. }`) is not part of the shape
        let mut depth = 0i32;
        while *p < b.len() {
            match b[*p] { '(' => depth += 1, ')' => { depth -= 1; if depth == 0 { *p += 1; return Some(json!(["Number"])); } } _ => {} }
            *p += 1;
        }
        return None;
    }
    *p += 1;
    let mut kids: Vec<Value> = vec![Value::String(name)];
    loop {
        skip_ws(b, p);
        if *p >= b.len() { return None; }
        if b[*p] == ')' { *p += 1; break; }
        if b[*p] == '[' {
            *p += 1;
            loop {
                skip_ws(b, p);
                if *p >= b.len() { return None; }
                if b[*p] == ']' { *p += 1; break; }
                kids.push(node(b, p)?);
                skip_ws(b, p);
                if *p < b.len() && b[*p] == ',' { *p += 1; }
            }
        } else {
            kids.push(node(b, p)?);
        }
        skip_ws(b, p);
        if *p < b.len() && b[*p] == ',' { *p += 1; }
    }
    Some(Value::Array(kids))
}

fn op_name(op: &str) -> &'static str {
    match op { "add" => "Add", "sub" => "Subtract", "mul" => "Multiply", "div" => "Divide", "mod" => "Modulo", "pow" => "Pow",
               "and" => "And", "or" => "Or", "shl" => "LeftShift", "shr" => "RightShift", _ => "?" }
}

/// AstShape!Shape: the specification's tree in the code's vocabulary
pub fn rust_shape(t: &T, a: &Asg) -> Value {
    let num = || json!(["Number"]);
    match t {
        T::Num(_) | T::Ans(_) | T::Const(_) | T::Zero(_) => num(),
        T::Neg(x) => json!(["Negative", rust_shape(x, a)]),
        T::Fact(x) => json!(["Factorial", rust_shape(x, a)]),
        T::Deg(x) | T::Rad(x) => json!(["Multiply", rust_shape(x, a), num()]),
        T::PSup(x, _) => json!(["Pow", rust_shape(x, a), num()]),
        T::Grp(k, x) => match k.as_str() { "lf" => json!(["Floor", rust_shape(x, a)]), "lc" => json!(["Ceil", rust_shape(x, a)]), _ => rust_shape(x, a) },
        T::Call(_, pos, args) => {
            let f = a.fns.get(pos).map(|s| s.as_str()).unwrap_or("?");
            let mut v = vec![Value::String((if f == "Mod" { "Modulo" } else { f }).to_string())];
            v.extend(args.iter().map(|x| rust_shape(x, a)));
            Value::Array(v)
        }
        T::Bin(op, x, y) => json!([op_name(op), rust_shape(x, a), rust_shape(y, a)]),
        T::IMul(x, y) => json!(["Multiply", rust_shape(x, a), rust_shape(y, a)]),
    }
}

/// preorder list of [variant, number of children] (AstShape!Flat): the form the recorded events carry
pub fn flat(v: &Value) -> Value {
    fn go(v: &Value, out: &mut Vec<Value>) {
        if let Some(a) = v.as_array() {
            out.push(json!([a[0], a.len() - 1]));
            for k in &a[1..] { go(k, out); }
        }
    }
    let mut out = Vec::new();
    go(v, &mut out);
    Value::Array(out)
}
