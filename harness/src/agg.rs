//! C11: aggregates.  (1) the lists TLC enumerated in spec/MCAgg.tla with the specification's own results
//! (integers and exact rationals), replayed into every evaluator and every alias; (2) boundary-value and
//! random lists at full width against the reference interpreter (which (1) ties to the specification).
use crate::call::default_placeholder;
use crate::engine::{checked_call, reject_exp, Out, Rng};
use crate::expect::{expected, Exp, EV};
use crate::refsem::bignum::BigInt;
use crate::refsem::decsem::DV;
use crate::refsem::numsem::{NAlt, NV};
use crate::refsem::{Precision, Stop};
use crate::render::Asg;
use crate::tree::T;
use crate::vocab::Vocab;
use serde_json::{json, Value};

const ERR_ARG: i64 = 999;

fn err_expr(e: &str) -> &'static str { match e { "i64" | "dec" => "1/0", _ => "w(-1)" } }

fn render_arg(e: &str, x: i64, style: usize) -> String {
    if x == ERR_ARG { return err_expr(e).to_string(); }
    match (x < 0, style % 3) {
        (false, 1) => format!("({})", x),
        (false, 2) => format!("+{}", x),
        (false, _) => format!("{}", x),
        (true, 1) => format!("(0-{})", -x),
        (true, _) => format!("-{}", -x),
    }
}

fn exp_from_spec(e: &str, r: &Value) -> Exp {
    let prec = Precision::default();
    match r["k"].as_str().unwrap() {
        "reject" => reject_exp(),
        "err" => Exp { res: Err(Stop::Err("an argument fails to evaluate")), prec, ops: 1, shape: None, no_tree: false },
        _ => {
            let (n, d) = (r["rat"]["n"].as_i64().unwrap(), r["rat"]["d"].as_i64().unwrap());
            let ev = match e {
                "i64" => EV::I(r["int"].as_i64().unwrap() as i128),
                "f64" => EV::F(n as f64 / d as f64),
                "num" => if d == 1 { EV::N(NAlt(vec![NV::I(n as i128), NV::F(n as f64)])) } else { EV::N(NAlt(vec![NV::F(n as f64 / d as f64)])) },
                _ => EV::D(DV::Quot { n: BigInt::from_i128(n as i128), d: BigInt::from_i128(d as i128) }),
            };
            Exp { res: Ok(ev), prec: Precision { zero_sign_free: true, ..prec }, ops: 1, shape: None, no_tree: false }
        }
    }
}

/// one TLC vector: every evaluator that offers the function, every spelling
pub fn replay_vector(out: &mut Out, v: &Vocab, bv: &Value, idx: u64) {
    let args: Vec<i64> = bv["args"].as_array().unwrap().iter().map(|x| x.as_i64().unwrap()).collect();
    for e in ["i64", "f64", "dec", "num"] {
        for (f, r) in bv["r"].as_object().unwrap() {
            let cls = if f == "Avg" { "fa" } else { "fv" };
            for kw in v.keywords_of(e, cls).iter().filter(|k| &k.func == f) {
                // Gcd / Lcm only carry an integer result
                if (f == "Gcd" || f == "Lcm") && e != "i64" { continue; }
                let text = format!("{}({})", kw.name, args.iter().enumerate().map(|(i, x)| render_arg(e, *x, idx as usize + i)).collect::<Vec<_>>().join(","));
                let exp = exp_from_spec(e, r);
                let ctx = json!({"aggregate": f, "args": args, "spec_result": r});
                checked_call(out, e, &text, &default_placeholder(e), Some(&exp), json!({"v": if r["k"] == "reject" { "reject" } else { "accept" }}), args.len() >= 2, &ctx);
            }
        }
    }
    if out.stats.samples.len() < 5 && idx % 401 == 3 { out.stats.samples.push(json!({"args": args, "spec": bv["r"]})); }
}

fn pool(e: &str) -> Vec<&'static str> {
    match e {
        "i64" => vec!["9223372036854775807", "9223372036854775806", "-9223372036854775807", "-9223372036854775807-1", "0", "1", "-1", "4611686018427387904", "6", "4", "-4", "3037000500"],
        "num" => vec!["9007199254740992", "9007199254740993", "9007199254740994", "0.5", "-2.5", "9223372036854775807", "3", "-9223372036854775807", "2.", "0", "1/0", "-1/0"],
        "f64" => vec!["9007199254740992", "9007199254740993", "0.1", "0.2", "0.3", "-2.5", "3", "1/0", "-1/0", "0", "-0", "4503599627370497.5"],
        _ => vec!["79228162514264337593543950335", "-79228162514264337593543950335", "0.1", "0.2", "1.10", "-2.5", "3", "0.0000000000000000000000000001", "39614081257132168796771975167", "0", "7", "1.5"],
    }
}

/// build the tree of  f(arg, ...)  where each argument is a literal, a negated literal, `a-b` or `a/b`
fn tree_of(e: &str, func: &str, cls: &str, args: &[&str]) -> (T, Asg) {
    let mut asg = Asg::default();
    asg.fns.insert(1, func.to_string());
    let mut pos = 10;
    let mut lit = |asg: &mut Asg, t: &str| -> T { pos += 1; asg.lits.insert(pos, (t.to_string(), false)); T::Num(pos) };
    let mut ts = Vec::new();
    for a in args {
        let (neg, body) = if let Some(r) = a.strip_prefix('-') { (true, r) } else { (false, *a) };
        let t = if let Some(i) = body.find('/') { T::Bin("div".into(), Box::new(lit(&mut asg, &body[..i])), Box::new(lit(&mut asg, &body[i + 1..]))) }
                else if let Some(i) = body.rfind('-') { T::Bin("sub".into(), Box::new(lit(&mut asg, &body[..i])), Box::new(lit(&mut asg, &body[i + 1..]))) }
                else { lit(&mut asg, body) };
        // prefix minus binds tighter than binary - and / : -a-b = (-a)-b, -a/b = (-a)/b
        let t = if neg { match t { T::Bin(op, l, r) => T::Bin(op, Box::new(T::Neg(l)), r), x => T::Neg(Box::new(x)) } } else { t };
        ts.push(t);
    }
    let _ = e;
    (T::Call(cls.to_string(), 1, ts), asg)
}

/// aggregates whose arguments are themselves aggregates (the arguments of an aggregate are expressions): every ordered pair of
/// aggregate spellings, the inner call as the only, the first and the last argument, inner lists of one to three values
pub fn replay_nested(out: &mut Out, v: &Vocab, e: &str) {
    let fns: Vec<(&str, &str)> = if e == "i64" { vec![("Min", "fv"), ("Max", "fv"), ("Avg", "fa"), ("Med", "fv"), ("Gcd", "fv"), ("Lcm", "fv")] } else { vec![("Min", "fv"), ("Max", "fv"), ("Avg", "fa"), ("Med", "fv")] };
    let ph = default_placeholder(e);
    let inner_lists: [&[&str]; 4] = [&["4"], &["6", "4"], &["3", "12", "6"], &[]];
    let mut n = 0u64;
    for (fo, co) in &fns {
        for ko in v.keywords_of(e, co).into_iter().filter(|k| &k.func == fo) {
            for (fi, ci) in &fns {
                for ki in v.keywords_of(e, ci).into_iter().filter(|k| &k.func == fi) {
                    for il in inner_lists.iter() {
                        if il.is_empty() && *ci != "fa" { continue; }
                        for shape in 0..3 {
                            n += 1;
                            out.heartbeat(n);
                            out.stats.items += 1;
                            let mut asg = Asg::default();
                            asg.fns.insert(1, fo.to_string());
                            asg.fns.insert(2, fi.to_string());
                            let mut pos = 10;
                            let mut lit = |asg: &mut Asg, t: &str| -> T { pos += 1; asg.lits.insert(pos, (t.to_string(), false)); T::Num(pos) };
                            let inner_args: Vec<T> = il.iter().map(|a| lit(&mut asg, a)).collect();
                            let inner_t = if il.is_empty() { T::Zero(2) } else { T::Call(ci.to_string(), 2, inner_args) };
                            let inner_s = format!("{}({})", ki.name, il.join(","));
                            let (args, text) = match shape {
                                0 => (vec![inner_t], format!("{}({})", ko.name, inner_s)),
                                1 => (vec![inner_t, lit(&mut asg, "18")], format!("{}({},18)", ko.name, inner_s)),
                                _ => (vec![lit(&mut asg, "9"), lit(&mut asg, "2"), inner_t], format!("{}(9,2,{})", ko.name, inner_s)),
                            };
                            let t = T::Call(co.to_string(), 1, args);
                            let exp = expected(e, &t, &asg, &ph);
                            let ctx = json!({"aggregate": fo, "inner": fi, "shape": shape});
                            checked_call(out, e, &text, &ph, Some(&exp), json!({"v": "accept"}), true, &ctx);
                        }
                    }
                }
            }
        }
    }
}

/// full-width lists: exhaustive over the boundary pool up to length `exh`, seeded random lists up to length 8
pub fn replay_boundary(out: &mut Out, v: &Vocab, e: &str, exh: usize, random: usize, rng: &mut Rng) {
    let p = pool(e);
    let mut lists: Vec<Vec<usize>> = Vec::new();
    for n in 1..=exh {
        let mut idx = vec![0usize; n];
        'outer: loop {
            lists.push(idx.clone());
            let mut k = 0;
            loop { if k == n { break 'outer; } idx[k] += 1; if idx[k] < p.len() { break; } idx[k] = 0; k += 1; }
        }
    }
    for _ in 0..random { let n = 2 + rng.below(7); lists.push((0..n).map(|_| rng.below(p.len())).collect()); }
    // long lists (beyond the insertion-sort / small-size paths of sorting and selection routines): distinct small values, descending,
    // ascending, rotated and seeded shuffles, every length 9..=40
    let mut long_lists: Vec<Vec<String>> = Vec::new();
    for n in 9..=40usize {
        let base: Vec<i64> = (1..=n as i64).map(|k| k * 3 - 20).collect();
        let mut variants: Vec<Vec<i64>> = vec![base.iter().rev().cloned().collect(), base.clone(), { let mut r = base.clone(); r.rotate_left(n / 3); r }];
        for _ in 0..(if random > 1000 { 6 } else { 2 }) { let mut sh = base.clone(); for i in (1..n).rev() { let j = rng.below(i + 1); sh.swap(i, j); } variants.push(sh); }
        for vr in variants { long_lists.push(vr.iter().map(|x| x.to_string()).collect()); }
    }
    let fns: Vec<(&str, &str)> = if e == "i64" { vec![("Min", "fv"), ("Max", "fv"), ("Avg", "fa"), ("Med", "fv"), ("Gcd", "fv"), ("Lcm", "fv")] } else { vec![("Min", "fv"), ("Max", "fv"), ("Avg", "fa"), ("Med", "fv")] };
    let ph = default_placeholder(e);
    for (li, l) in lists.iter().enumerate() {
        out.heartbeat(li as u64);
        out.stats.items += 1;
        let args: Vec<&str> = l.iter().map(|i| p[*i]).collect();
        for (f, cls) in &fns {
            let kws: Vec<_> = v.keywords_of(e, cls).into_iter().filter(|k| &k.func == f).collect();
            let kw = kws[li % kws.len()];
            let text = format!("{}({})", kw.name, args.join(","));
            let (t, asg) = tree_of(e, f, cls, &args);
            let exp = expected(e, &t, &asg, &ph);
            let ctx = json!({"aggregate": f, "args": args});
            checked_call(out, e, &text, &ph, Some(&exp), json!({"v": "accept"}), args.len() >= 2, &ctx);
        }
    }
    for (li, l) in long_lists.iter().enumerate() {
        out.heartbeat((lists.len() + li) as u64);
        out.stats.items += 1;
        let args: Vec<&str> = l.iter().map(|s| s.as_str()).collect();
        for (f, cls) in &fns {
            if *f == "Lcm" { continue; }          // the lcm of 9+ distinct values leaves the range; covered by the short lists
            let kws: Vec<_> = v.keywords_of(e, cls).into_iter().filter(|k| &k.func == f).collect();
            let kw = kws[li % kws.len()];
            let text = format!("{}({})", kw.name, args.join(","));
            if text.chars().count() > 256 { continue; }
            let (t, asg) = tree_of(e, f, cls, &args);
            let exp = expected(e, &t, &asg, &ph);
            let ctx = json!({"aggregate": f, "args": args.len()});
            checked_call(out, e, &text, &ph, Some(&exp), json!({"v": "accept"}), true, &ctx);
        }
    }
}
