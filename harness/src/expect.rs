//! Expected outcome of a call, from the specification's tree and the reference interpreter,
//! and its comparison with what the code returned.
use crate::refsem::bignum::BigInt;
use crate::refsem::cpxsem::{CpxSem, Z};
use crate::refsem::decsem::{DecSem, DV};
use crate::refsem::f64sem::F64Sem;
use crate::refsem::i64sem::I64Sem;
use crate::refsem::numsem::{num_eq, NAlt, NumSem, NV};
use crate::refsem::{eval, Precision, Sem, Stop};
use crate::render::Asg;
use crate::tree::T;
use crate::val::{Outcome, Val};
use string_calculator::Number;

#[derive(Clone, Debug)]
pub enum EV {
    F(f64),
    I(i128),
    N(NAlt),
    D(DV),
    C(Z),
}

#[derive(Clone, Debug)]
pub struct Exp {
    pub res: Result<EV, Stop>,
    pub prec: Precision,
    pub ops: usize,
    /// the tree of the specification's parser in the code's vocabulary (AstShape!Shape), when the specification accepts
    pub shape: Option<serde_json::Value>,
    /// the specification rejects the input: the code's parser must not return a tree
    pub no_tree: bool,
}

pub fn dv_of_decimal(d: &rust_decimal::Decimal) -> DV { DV::Dec { c: BigInt::from_i128(d.mantissa()), s: d.scale() } }

pub fn expected(e: &str, t: &T, a: &Asg, ph: &Val) -> Exp {
    macro_rules! run {
        ($sem:expr, $wrap:expr) => {{
            let s = $sem;
            let r = eval(&s, t, a).map($wrap);
            Exp { res: r, prec: s.flags().precision(), ops: s.flags().ops.get(), shape: Some(crate::ast::rust_shape(t, a)), no_tree: false }
        }};
    }
    match (e, ph) {
        ("f64", Val::F(p)) => run!(F64Sem::new(*p), EV::F),
        ("i64", Val::I(p)) => run!(I64Sem::new(64, *p as i128), EV::I),
        ("num", Val::N(p)) => run!(NumSem::new(64, match p { Number::Integer(i) => NV::I(*i as i128), Number::Float(x) => NV::F(*x) }), EV::N),
        ("dec", Val::D(p)) => run!(DecSem::new(dv_of_decimal(p)), EV::D),
        ("cpx", Val::C(p)) => run!(CpxSem::new((p.re, p.im)), EV::C),
        _ => panic!("harness: evaluator/placeholder mismatch"),
    }
}

#[derive(Clone, Debug, PartialEq)]
pub enum Verdict {
    Match,
    /// the comparison was not made (named rule); the call still had to return
    NotAsserted(&'static str),
    /// category, description
    Mismatch(&'static str, String),
}

fn f_close(a: f64, b: f64, p: &Precision) -> bool {
    if a.is_nan() || b.is_nan() { return a.is_nan() && b.is_nan(); }
    if p.tol == 0.0 {
        if a == 0.0 && b == 0.0 && p.zero_sign_free { return true; }
        return a.to_bits() == b.to_bits();
    }
    if a.is_infinite() || b.is_infinite() { return a == b; }
    (a - b).abs() <= p.tol * a.abs().max(b.abs()) + 1e-300
}

fn dec_matches(exp: &DV, act: &rust_decimal::Decimal, p: &Precision) -> bool {
    let m = BigInt::from_i128(act.mantissa());
    let t = act.scale();
    let act_f = || -> f64 { format!("{}e-{}", act.mantissa(), t).parse::<f64>().unwrap_or(f64::NAN) };
    match exp {
        DV::Dec { c, s } => {
            if p.tol > 0.0 {
                let x = crate::refsem::decsem::to_f64(c, *s);
                return f_close(x, act_f(), p);
            }
            // m / 10^t == c / 10^s
            m.mul(&BigInt::pow10(*s)) == c.mul(&BigInt::pow10(t))
        }
        DV::Quot { n, d } => {
            // |m/10^t - n/d| <= 1e-27 * max(1, |n/d|)   <=>   |m*d - n*10^t| * 10^27 <= max(|d|,|n|) * 10^t
            let lhs = m.mul(d).sub(&n.mul(&BigInt::pow10(t))).abs().mul(&BigInt::pow10(27));
            let mx = if n.abs().cmp(&d.abs()) == std::cmp::Ordering::Greater { n.abs() } else { d.abs() };
            lhs.cmp(&mx.mul(&BigInt::pow10(t))) != std::cmp::Ordering::Greater
        }
        DV::Approx(x) => f_close(*x, act_f(), &Precision { tol: p.tol.max(1e-9), ..*p }),
    }
}

fn num_matches(exp: &NAlt, act: &Number, p: &Precision) -> bool {
    let a = match act { Number::Integer(i) => NV::I(*i as i128), Number::Float(x) => NV::F(*x) };
    if p.tol > 0.0 {
        return f_close(exp.0[0].as_f64(), a.as_f64(), p);
    }
    // a zero whose variant is open (an integral double the code may hold as Integer) has no determined sign
    let zero_open = exp.0.len() > 1 && exp.0[0].as_f64() == 0.0;
    exp.0.iter().any(|v| match (v, &a) {
        (NV::I(x), NV::I(y)) => x == y,
        (NV::F(x), NV::F(y)) => f_close(*x, *y, p) || (zero_open && *x == 0.0 && *y == 0.0),
        _ => p.zero_sign_free && num_eq(v, &a) && a.as_f64() == 0.0,
    })
}

/// Compare the outcome of the real call with the expectation.
pub fn compare(exp: &Exp, act: &Outcome) -> Verdict {
    match act {
        Outcome::Panic(m) => return Verdict::Mismatch("panic", m.clone()),
        Outcome::Budget => return Verdict::Mismatch("budget", "step budget exceeded".into()),
        _ => {}
    }
    match (&exp.res, act) {
        (Err(Stop::Unspec(r)), _) => Verdict::NotAsserted(r),
        (Err(Stop::Err(_)), Outcome::Err(_)) => Verdict::Match,
        (Err(Stop::Err(why)), Outcome::Ok(v)) => Verdict::Mismatch(if *why == "rejected by the grammar" { "ok_on_reject" } else { "ok_on_semantic_err" },
                                                                    format!("expected Err ({}), got Ok({})", why, v.show())),
        (Ok(ev), Outcome::Err(m)) => Verdict::Mismatch("err_on_defined", format!("expected {:?}, got Err({})", ev, m)),
        (Ok(ev), Outcome::Ok(v)) => {
            let p = &exp.prec;
            // the errors of several inexact operations compound (and are amplified by the operations between them)
            if p.tol > 0.0 && p.inexact_ops > 2 { return Verdict::NotAsserted("CompoundedInexactOperations"); }
            // a tolerance cannot decide results at the edge of overflow (one side inf, the other just below MAX)
            if p.tol > 0.0 {
                let big = match ev { EV::F(x) => x.abs() > 1e300, EV::N(a) => a.0[0].as_f64().abs() > 1e300, EV::C(z) => z.0.abs() > 1e300 || z.1.abs() > 1e300, _ => false };
                if big { return Verdict::NotAsserted("InexactNearOverflow"); }
            }
            let ok = match (ev, v) {
                (EV::F(x), Val::F(y)) => f_close(*x, *y, p),
                (EV::I(x), Val::I(y)) => (*x - *y as i128).abs() <= p.abs_slack as i128,
                (EV::N(x), Val::N(y)) => num_matches(x, y, p),
                (EV::D(x), Val::D(y)) => dec_matches(x, y, p),
                (EV::C(x), Val::C(y)) => {
                    if p.tol == 0.0 { f_close(x.0, y.re, p) && f_close(x.1, y.im, p) }
                    else if !(y.re.is_finite() && y.im.is_finite() && x.0.is_finite() && x.1.is_finite()) { f_close(x.0, y.re, p) && f_close(x.1, y.im, p) }
                    else { let d = (x.0 - y.re).hypot(x.1 - y.im); let m = x.0.hypot(x.1).max(y.re.hypot(y.im)); d <= p.tol * m + 1e-300 }
                }
                _ => false,
            };
            if ok { Verdict::Match } else { Verdict::Mismatch("value", format!("expected {:?} (tol {:e}), got {}", ev, p.tol, v.show())) }
        }
        _ => unreachable!(),
    }
}
