//! C15: the evaluators agree on their common sub-language.  One rendering of a token sequence the
//! specification enumerated (or of a vocabulary item of spec/MCVocab.tla) is handed to two evaluators;
//! the reference interpreter only decides whether the expression lies inside the clause's scope
//! (Common.tla states the sub-languages; the scope predicates are those of the property's statement):
//!   i64-num  integer expressions: eval_i64 Ok(v)  =>  eval_number Integer(v)
//!   num-f64  intermediates finite, < 2^53, never -0, no Integer^negative Integer: numeric value identical
//!   cpx-f64  operator / function applied directly to real operands inside its real domain: within 1e-9
//!   dec-f64  positive well-conditioned expressions over + * / sqrt exp ln pow: within 1e-9 relative
use crate::call::call;
use crate::engine::{h64, Beh, Out, Rng};
use crate::refsem::f64sem::F64Sem;
use crate::refsem::i64sem::I64Sem;
use crate::refsem::{eval, Stop};
use crate::render::{render, Asg, Policy};
use crate::tree::T;
use crate::val::{Outcome, Val};
use crate::vocab::Vocab;
use num_complex::Complex;
use rust_decimal::prelude::*;
use serde_json::{json, Value};
use string_calculator::Number;

const TWO53: f64 = 9007199254740992.0;

fn note(out: &mut Out, rule: &str) {
    out.stats.not_asserted += 1;
    *out.stats.not_asserted_rules.entry(rule.to_string()).or_insert(0) += 1;
}

/// both calls, recorded as trace events; panics and budget overruns are findings of their own categories
fn two_calls(out: &mut Out, e1: &str, ph1: &Val, e2: &str, ph2: &Val, text: &str, claim: &Value, ctx: &Value) -> (Outcome, Outcome) {
    let one = |out: &mut Out, e: &str, ph: &Val| -> Outcome {
        let (o, t) = call(e, text, ph);
        out.stats.calls += 1;
        out.note_ticks(text, &t);
        let mut force = false;
        match &o {
            Outcome::Panic(m) => { force = true; out.finding("panic", e, text, ph, "Ok or Err", &format!("PANIC({})", m), ctx.clone()); }
            Outcome::Budget => { force = true; out.finding("budget", e, text, ph, "steps <= 4096+256*len", "step budget exceeded", ctx.clone()); }
            _ => {}
        }
        out.event(e, text, ph, &o, &t, claim.clone(), force);
        o
    };
    let a = one(out, e1, ph1);
    let b = one(out, e2, ph2);
    (a, b)
}

fn kinds_ok(b: &Beh, allowed: &[String]) -> bool { b.kinds.iter().all(|k| allowed.contains(k)) }

// ------------------------------------------------------------------------------------------- i64 -> number

pub fn int_lits() -> Vec<String> {
    ["0", "1", "2", "3", "5", "7", "10", "20", "21", "62", "63", "64", "4294967296", "3037000499", "3037000500", "4611686018427387904", "9223372036854775806", "9223372036854775807", "12", "6",
     // integers above 2^53 that are not doubles but have small factors (exact quotients that a detour through f64 gets wrong)
     "9007199254740993", "150094635296999121", "298023223876953125", "81", "625"]
        .iter().map(|s| s.to_string()).collect()
}

pub fn i64_num(out: &mut Out, v: &Vocab, b: &Beh, rng: &mut Rng, max_assign: usize) {
    if b.verdict != "accept" || !b.renderable || b.numnum || !kinds_ok(b, &v.common["intKinds"]) { return; }
    let tree = b.tree.as_ref().unwrap();
    let lits = int_lits();
    let nlit = b.kinds.iter().filter(|k| *k == "num").count();
    let phs: [i64; 8] = [3, -7, 0, 1, -1, 20, i64::MAX, i64::MIN];
    let has_ans = b.kinds.iter().any(|k| k == "ans");
    for (ai, a) in crate::engine::assignments(nlit, lits.len(), max_assign, rng).into_iter().enumerate() {
        let mut pol = Policy::reveal("i64", ai);
        pol.lits = lits.clone();
        pol.fixed = a;
        pol.fns_allowed = v.common["intFns"].clone();
        pol.sups = vec!["2".into(), "3".into(), "0".into(), "1".into(), "63".into(), "5".into()];
        let r = match render(v, "i64", &b.kinds, &pol) { Some(r) => r, None => return };
        for p in phs.iter().take(if has_ans { phs.len() } else { 1 }) {
            let s = I64Sem::new(64, *p as i128);
            let refv = eval(&s, tree, &r.asg);
            // scope: an integer expression in which every division is exact
            let in_scope = match &refv {
                Ok(_) => !s.flags.inexact_div.get(),
                Err(Stop::Unspec("NegativeFactorialI64")) => !b.kinds.iter().any(|k| k == "div"),
                _ => false,
            };
            let ctx = json!({"toks": b.kinds, "clause": "i64-num"});
            let (oi, on) = two_calls(out, "i64", &Val::I(*p), "num", &Val::N(Number::Integer(*p)), &r.text, &json!({"kinds": b.kinds, "v": "accept"}), &ctx);
            let key = h64(&("i64-num", &r.text, *p));
            out.stats.distinct.insert(key);
            if !in_scope { note(out, match &refv { Err(Stop::Unspec(r)) => r, Err(Stop::Err(_)) => "IntegerExpressionUndefined", _ => "InexactIntegerDivision" }); continue; }
            out.stats.compared += 1;
            if tree.count_ops() >= 1 { out.stats.nontrivial.insert(key); }
            match (&oi, &on) {
                (Outcome::Ok(Val::I(x)), Outcome::Ok(Val::N(Number::Integer(y)))) if x == y => out.stats.matched += 1,
                (Outcome::Ok(Val::I(x)), other) if other.returned() =>
                    out.finding("cross_int", "num", &r.text, &Val::N(Number::Integer(*p)), &format!("Integer({}) (eval_i64 returns Ok({}))", x, x), &other.show(), ctx.clone()),
                _ => out.stats.matched += 1,      // eval_i64 did not return Ok: the clause says nothing
            }
            if out.stats.samples.len() < 4 && out.stats.calls % 4001 < 2 { out.stats.samples.push(json!({"clause": "i64-num", "input": r.text, "i64": oi.show(), "num": on.show()})); }
        }
    }
}

/// character level: one string (every white-space character in turn, also inside literals and names), the evaluators of the
/// integer clause and of the float clause.  The string's tokens and tree are the specification's (spec/MCLexer.tla, evaluator num).
pub fn chars_item(out: &mut Out, v: &Vocab, bv: &Value, idx: u64) {
    if bv["v"].as_str() != Some("accept") { return; }
    let tree = T::from_json(&bv["tree"]);
    for rot in [0u64, 7, 13] {
        let (text, asg, kinds, chars) = crate::engine::string_parts(bv, idx + rot, None);
        if rot > 0 && !chars.iter().any(|c| c == "WS") { break; }
        let ctx = json!({"chars": chars, "toks": kinds});
        let claim = json!({"v": "accept"});
        // float clause
        if kinds.iter().all(|k| v.common["floatKinds"].contains(k)) {
            for (pn, pf) in [(Number::Integer(3), 3.0f64), (Number::Float(-2.5), -2.5)] {
                judge_num_f64(out, &text, &tree, &asg, &pn, pf, json!({"chars": chars, "toks": kinds, "clause": "num-f64"}), claim.clone());
                if !kinds.iter().any(|k| k == "ans") { break; }
            }
        }
        // integer clause
        let int_lits = asg.lits.values().all(|(t, im)| !*im && t.chars().all(|c| c.is_ascii_digit()));
        if int_lits && kinds.iter().all(|k| v.common["intKinds"].contains(k)) {
            for p in [3i64, -7, i64::MIN] {
                let s = I64Sem::new(64, p as i128);
                let refv = eval(&s, &tree, &asg);
                let in_scope = matches!(&refv, Ok(_)) && !s.flags.inexact_div.get();
                let (oi, on) = two_calls(out, "i64", &Val::I(p), "num", &Val::N(Number::Integer(p)), &text, &claim, &ctx);
                let key = h64(&("i64-num-chars", &text, p));
                out.stats.distinct.insert(key);
                if in_scope {
                    out.stats.compared += 1;
                    out.stats.nontrivial.insert(key);
                    match (&oi, &on) {
                        (Outcome::Ok(Val::I(x)), Outcome::Ok(Val::N(Number::Integer(y)))) if x == y => out.stats.matched += 1,
                        (Outcome::Ok(Val::I(x)), other) if other.returned() =>
                            out.finding("cross_int", "num", &text, &Val::N(Number::Integer(p)), &format!("Integer({}) (eval_i64 returns Ok({}))", x, x), &other.show(), ctx.clone()),
                        _ => out.stats.matched += 1,
                    }
                }
                if !kinds.iter().any(|k| k == "ans") { break; }
            }
        }
    }
}

// ------------------------------------------------------------------------------------------- number ~ f64
pub fn num_f64(out: &mut Out, v: &Vocab, b: &Beh, rng: &mut Rng, max_assign: usize, allfns: bool) {
    if b.verdict != "accept" || !b.renderable || b.numnum { return; }
    if !kinds_ok(b, &v.common["floatKinds"]) { return; }
    let tree = b.tree.as_ref().unwrap();
    let lits: Vec<String> = ["2", "3", "0.5", "5", "1.5", "7", "0", "1", "2.5", "10", "0.1", "20", "21", "4", "0.25", "63", "9007199254740992", "3037000500", "170", "6", "4294967296", "4294967297", "4294967295", "2147483648"].iter().map(|s| s.to_string()).collect();
    let nlit = b.kinds.iter().filter(|k| *k == "num").count();
    let phs: Vec<(Number, f64)> = vec![(Number::Integer(3), 3.0), (Number::Float(-2.5), -2.5), (Number::Integer(0), 0.0), (Number::Float(0.5), 0.5), (Number::Integer(-7), -7.0),
                                       (Number::Integer(20), 20.0), (Number::Float(1e15), 1e15), (Number::Integer(1 << 53), TWO53)];
    let has_ans = b.kinds.iter().any(|k| k == "ans");
    for (ai, a) in crate::engine::assignments(nlit, lits.len(), max_assign, rng).into_iter().enumerate() {
        let mut pol = if allfns { Policy::all_fns("num", ai) } else { Policy::reveal("num", ai) };
        pol.lits = lits.clone();
        pol.fixed = a;
        let r = match render(v, "num", &b.kinds, &pol) { Some(r) => r, None => return };
        for (pn, pf) in phs.iter().take(if has_ans { phs.len() } else { 1 }) {
            judge_num_f64(out, &r.text, tree, &r.asg, pn, *pf, json!({"toks": b.kinds, "clause": "num-f64"}), json!({"kinds": b.kinds, "v": "accept"}));
        }
    }
}

/// one expression, eval_number and eval_f64: inside the clause's scope the numeric values must be identical
fn judge_num_f64(out: &mut Out, text: &str, tree: &T, asg: &Asg, pn: &Number, pf: f64, ctx: Value, claim: Value) {
    let s = F64Sem::new(pf);
    s.flags.scope_only.set(true);
    let refv = eval(&s, tree, asg);
    let fl = &s.flags;
    let why = match &refv {
        Err(Stop::Unspec(r)) => Some(*r),
        Err(Stop::Err(_)) => Some("UndefinedInF64"),
        Ok(_) if fl.saw_nonfinite.get() => Some("NonFiniteIntermediate"),
        Ok(_) if fl.max_abs.get() >= TWO53 => Some("IntermediateAtOrAbove2p53"),
        Ok(_) if fl.saw_negzero.get() => Some("NegativeZeroIntermediate"),
        Ok(_) if fl.int_negpow.get() => Some("IntegerToNegativeIntegerPower"),
        Ok(_) => None,
    };
    let (on, of) = two_calls(out, "num", &Val::N(pn.clone()), "f64", &Val::F(pf), text, &claim, &ctx);
    let key = h64(&("num-f64", text, pf.to_bits()));
    out.stats.distinct.insert(key);
    if let Some(w) = why { note(out, w); return; }
    out.stats.compared += 1;
    if tree.count_ops() >= 1 || matches!(tree, T::Call(..)) { out.stats.nontrivial.insert(key); }
    let nv = match &on { Outcome::Ok(Val::N(Number::Integer(i))) => Some(*i as f64), Outcome::Ok(Val::N(Number::Float(x))) => Some(*x), _ => None };
    let fv = match &of { Outcome::Ok(Val::F(x)) => Some(*x), _ => None };
    let same = match (nv, fv) {
        (Some(x), Some(y)) => x == y || (x.is_nan() && y.is_nan()),
        (None, None) => on.returned() && of.returned(),
        _ => !(on.returned() && of.returned()),      // a panic is reported by its own category
    };
    if same { out.stats.matched += 1; }
    else { out.finding("cross_float", "num", text, &Val::N(pn.clone()), &format!("the numeric value of eval_f64's result {}", of.show()), &on.show(), ctx.clone()); }
    if out.stats.samples.len() < 6 && out.stats.calls % 4001 < 2 { out.stats.samples.push(json!({"clause": "num-f64", "input": text, "num": on.show(), "f64": of.show()})); }
}

/// signed operands for the vocabulary sweep: mixed Integer / Float literals of both signs, equal truncations, halves
const SIGNED_POOL: [&str; 16] = ["2", "-2", "2.5", "-2.5", "0", "0.5", "-0.5", "3", "-3", "7.25", "-7.25", "10", "1", "-1", "-7", "3.0"];

fn signed_arg(asg: &mut Asg, pos: usize, lit: &str) -> (T, String) {
    let (neg, body) = match lit.strip_prefix('-') { Some(b) => (true, b), None => (false, lit) };
    asg.lits.insert(pos, (body.to_string(), false));
    if neg { (T::Neg(Box::new(T::Num(pos))), lit.to_string()) } else { (T::Num(pos), lit.to_string()) }
}

/// every function, constant and postfix operator of the shared vocabulary (spec/MCVocab.tla, evaluator num) applied to the
/// signed pool: one argument, every ordered pair, every list of up to three (aggregates)
pub fn num_f64_item(out: &mut Out, bv: &Value) {
    if bv["e"].as_str() != Some("num") { return; }
    let it = &bv["item"];
    let (kind, name, cls, func) = (it["kind"].as_str().unwrap(), it["name"].as_str().unwrap(), it["cls"].as_str().unwrap(), it["fn"].as_str().unwrap());
    let pn = Number::Integer(0);
    let ctx = json!({"clause": "num-f64", "item": it});
    let claim = json!({"v": "accept"});
    match kind {
        "const" => { let mut asg = Asg::default(); asg.consts.insert(1, func.to_string()); judge_num_f64(out, &crate::vocab::concrete(name), &T::Const(1), &asg, &pn, 0.0, ctx, claim); }
        "postfix" => {
            for l in SIGNED_POOL.iter() {
                let mut asg = Asg::default();
                let (a, txt) = signed_arg(&mut asg, 10, l);
                let g = T::Grp("lp".into(), Box::new(a));
                let (t, text) = match name { "bang" => (T::Fact(Box::new(g)), format!("({})!", txt)), "deg" => (T::Deg(Box::new(g)), format!("({})°", txt)), _ => (T::Rad(Box::new(g)), format!("({})rad", txt)) };
                judge_num_f64(out, &text, &t, &asg, &pn, 0.0, ctx.clone(), claim.clone());
            }
        }
        _ => {
            let lists: Vec<Vec<&str>> = match cls {
                "f1" => SIGNED_POOL.iter().map(|a| vec![*a]).collect(),
                "f2" => SIGNED_POOL.iter().flat_map(|a| SIGNED_POOL.iter().map(move |b| vec![*a, *b])).collect(),
                _ => { let mut v: Vec<Vec<&str>> = SIGNED_POOL.iter().map(|a| vec![*a]).collect();
                       for a in SIGNED_POOL.iter() { for b in SIGNED_POOL.iter() { v.push(vec![*a, *b]); for c in SIGNED_POOL.iter().take(9) { v.push(vec![*a, *b, *c]); } } }
                       if cls == "fa" { v.push(vec![]); }
                       v }
            };
            // long argument lists (beyond the small-size paths of sorting / selection routines): 17..=26 distinct values, several orders
            if cls == "fv" || cls == "fa" {
                for n in 17..=26usize {
                    let base: Vec<String> = (1..=n as i64).map(|k| if k % 5 == 0 { format!("{}.5", k) } else { (k * 2 - 9).to_string() }).collect();
                    let orders: Vec<Vec<String>> = vec![base.iter().rev().cloned().collect(), base.clone(), { let mut r = base.clone(); r.rotate_left(n / 3); r },
                                                        { let mut r = base.clone(); r.reverse(); r.rotate_left(n / 2); r }];
                    for l in orders {
                        let mut asg = Asg::default();
                        asg.fns.insert(1, func.to_string());
                        let mut args = Vec::new();
                        let mut texts = Vec::new();
                        for (i, a) in l.iter().enumerate() { let (t, s) = signed_arg(&mut asg, 10 + i, a); args.push(t); texts.push(s); }
                        judge_num_f64(out, &format!("{}({})", name, texts.join(",")), &T::Call(cls.into(), 1, args), &asg, &pn, 0.0, ctx.clone(), claim.clone());
                    }
                }
            }
            for l in lists {
                let mut asg = Asg::default();
                asg.fns.insert(1, func.to_string());
                let mut args = Vec::new();
                let mut texts = Vec::new();
                for (i, a) in l.iter().enumerate() { let (t, s) = signed_arg(&mut asg, 10 + i, a); args.push(t); texts.push(s); }
                let t = if l.is_empty() { T::Zero(1) } else { T::Call(cls.into(), 1, args) };
                judge_num_f64(out, &format!("{}({})", name, texts.join(",")), &t, &asg, &pn, 0.0, ctx.clone(), claim.clone());
            }
        }
    }
}

// ------------------------------------------------------------------------------------------- complex ~ f64 on real operands
fn real_samples(rng: &mut Rng, n: usize) -> Vec<f64> {
    let mut v: Vec<f64> = vec![0.0, 1.0, -1.0, 0.5, -0.5, 2.0, -2.0, 0.25, 3.0, 10.0, 100.0, 1e-9, -1e-9, 1e-5, 1e9, -1e9, 0.9999999, 1.0000001, -0.9999999, 20.0, 0.36787944117144233,
                           2.718281828459045, 3.141592653589793, 1.5707963267948966, 12.5, -7.25, 1e-300, 1e300, 2.5, -2.5, 0.1, 4.0, 9.0, 16.0, 1000.0, 1e6, 0.7, -0.7, 1.5, 6.0, 27.0, 64.0, 123456.789,
                           1e-3, -1e-3, 0.3, -0.3, 5.0, 7.0, 0.99, -0.99, 1.01, 50.0, 700.0, -700.0];
    for _ in 0..n {
        let r = rng.next();
        let mag = match r % 6 { 0 => 1.0, 1 => 10.0, 2 => 150.0, 3 => 1e-3, 4 => 1e-7, _ => 1e4 };
        let u = ((r >> 11) as f64) / ((1u64 << 53) as f64);
        let x = (2.0 * u - 1.0) * mag;
        v.push(if r % 7 == 0 { x.round() } else { x });
    }
    v
}

fn lit_text(x: f64) -> Option<String> {
    let s = format!("{}", x);
    if s.contains('e') || s.contains("inf") || s.contains("NaN") || x < 0.0 { return None; }
    Some(s)
}

/// the named real-domain classes of spec/Common.tla; a, b: the arguments in the order written
fn in_domain(class: &str, a: f64, b: Option<f64>) -> bool {
    match (class, b) {
        ("all", _) => true,
        ("closed_unit", _) => (-1.0..=1.0).contains(&a),
        ("open_unit", _) => a > -1.0 && a < 1.0,
        ("ge_one", _) => a >= 1.0,
        ("nonneg", _) => a >= 0.0,
        ("pos", _) => a > 0.0,
        ("log", Some(b)) => a > 0.0 && b > 0.0 && b != 1.0,
        ("pow", Some(b)) => a > 0.0 || (a == 0.0 && b > 0.0) || (a < 0.0 && b.fract() == 0.0 && b.abs() <= 64.0),
        ("root", Some(x)) => a != 0.0 && (x > 0.0 || (x == 0.0 && a > 0.0)),
        ("div", Some(b)) => b != 0.0,
        _ => false,
    }
}

/// `text` applies one operator or function `what` (domain class `class`) directly to the real operands a (and b)
fn cpx_f64_pair(out: &mut Out, text: &str, x: f64, what: &str, class: &str, a: f64, b: Option<f64>) {
    let ctx = json!({"clause": "cpx-f64", "item": what, "domain": class});
    let (oc, of) = two_calls(out, "cpx", &Val::C(Complex::new(x, 0.0)), "f64", &Val::F(x), text, &json!({"v": "accept"}), &ctx);
    let key = h64(&("cpx-f64", text, x.to_bits()));
    out.stats.distinct.insert(key);
    if !in_domain(class, a, b) { note(out, "OutsideRealDomain"); return; }
    let f = match &of { Outcome::Ok(Val::F(f)) if f.is_finite() => *f, Outcome::Ok(_) => { note(out, "NotRepresentable"); return; } _ => { note(out, "F64ReturnsErr"); return; } };
    // results at the edge of the double range (overflow / underflow to zero of a non-zero value) are not "representable"
    if f.abs() > 1e290 || (f != 0.0 && f.abs() < 1e-290) { note(out, "NearOverflowOrUnderflow"); return; }
    if f == 0.0 && a != 0.0 && b.map_or(true, |y| y != 0.0) && matches!(class, "pow" | "root" | "div") || (f == 0.0 && matches!(what, "exp" | "exp2" | "*")) { note(out, "UnderflowToZero"); return; }
    out.stats.compared += 1;
    out.stats.nontrivial.insert(key);
    match &oc {
        Outcome::Ok(Val::C(z)) => {
            let m = f.abs().max(z.norm());
            let d = (z.re - f).hypot(z.im);
            if d <= 1e-9 * m + 1e-300 { out.stats.matched += 1; }
            else { out.finding("cross_complex", "cpx", text, &Val::C(Complex::new(x, 0.0)), &format!("within 1e-9 of eval_f64's {:?}", f), &oc.show(), ctx.clone()); }
        }
        o if o.returned() => out.finding("cross_complex", "cpx", text, &Val::C(Complex::new(x, 0.0)), &format!("within 1e-9 of eval_f64's {:?}", f), &o.show(), ctx.clone()),
        _ => {}
    }
    if out.stats.samples.len() < 6 && out.stats.calls % 3001 < 2 { out.stats.samples.push(json!({"clause": "cpx-f64", "input": text, "x": x, "cpx": oc.show(), "f64": of.show()})); }
}

/// one vocabulary item of spec/MCVocab.tla (evaluator cpx): a function, constant or postfix operator that eval_f64 offers too
pub fn cpx_f64_item(out: &mut Out, v: &Vocab, bv: &Value, rng: &mut Rng, n: usize) {
    if bv["e"].as_str() != Some("cpx") { return; }
    let it = &bv["item"];
    let (kind, name, cls, func) = (it["kind"].as_str().unwrap(), it["name"].as_str().unwrap(), it["cls"].as_str().unwrap(), it["fn"].as_str().unwrap());
    let xs = real_samples(rng, n);
    let ys = [2.0f64, 3.0, 0.5, 10.0, 1.0, 0.0, 7.0, 1.5, 2.718281828459045, 100.0, 0.25, 4.0];
    match kind {
        "const" => { let t = crate::vocab::concrete(name); cpx_f64_pair(out, &t, 0.0, name, "all", 0.0, None); }
        "postfix" => { if name != "bang" { for x in &xs { cpx_f64_pair(out, if name == "deg" { "@°" } else { "@rad" }, *x, name, "all", *x, None); } } }
        _ => {
            if !v.common["realFns"].iter().any(|f| f == func) { return; }
            let class = v.real_domain.get(func).cloned().unwrap_or_default();
            if cls == "f1" { for x in &xs { cpx_f64_pair(out, &format!("{}(@)", name), *x, name, &class, *x, None); } }
            else if cls == "f2" {
                for (i, x) in xs.iter().enumerate() {
                    let y = ys[i % ys.len()];
                    let ly = match lit_text(y) { Some(l) => l, None => continue };
                    cpx_f64_pair(out, &format!("{}(@,{})", name, ly), *x, name, &class, *x, Some(y));
                    cpx_f64_pair(out, &format!("{}({},@)", name, ly), *x, name, &class, y, Some(*x));
                    cpx_f64_pair(out, &format!("{}(@,-{})", name, ly), *x, name, &class, *x, Some(-y));
                }
            }
        }
    }
}

/// the operators both evaluators offer, applied directly to real operands
pub fn cpx_f64_operators(out: &mut Out, rng: &mut Rng, n: usize) {
    let xs = real_samples(rng, n);
    let ys = [2.0f64, 3.0, 0.5, 10.0, 1.0, 0.0, 7.0, 1.5, 2.718281828459045, 100.0, 0.25, 4.0, 0.1, 12.0];
    for (i, x) in xs.iter().enumerate() {
        cpx_f64_pair(out, "-@", *x, "neg", "all", *x, None);
        cpx_f64_pair(out, "+@", *x, "plus", "all", *x, None);
        cpx_f64_pair(out, "(@)", *x, "group", "all", *x, None);
        let y = ys[i % ys.len()];
        let ly = match lit_text(y) { Some(l) => l, None => continue };
        for op in ["+", "-", "*", "/", "^"] {
            let class = match op { "/" => "div", "^" => "pow", _ => "all" };
            cpx_f64_pair(out, &format!("@{}{}", op, ly), *x, op, class, *x, Some(y));
            cpx_f64_pair(out, &format!("{}{}@", ly, op), *x, op, class, y, Some(*x));
            cpx_f64_pair(out, &format!("@{}(-{})", op, ly), *x, op, class, *x, Some(-y));
        }
        for (s, k) in [("²", 2.0), ("³", 3.0), ("⁰", 0.0), ("¹", 1.0), ("¹⁰", 10.0)] { cpx_f64_pair(out, &format!("@{}", s), *x, "sup", "pow", *x, Some(k)); }
        cpx_f64_pair(out, &format!("@({})", ly), *x, "*", "all", *x, Some(y));
    }
}

// ------------------------------------------------------------------------------------------- decimal ~ f64

/// value and a bound on the relative error that rounding of the inputs and of every operation can cause (first order)
fn cond_eval(t: &T, a: &Asg, ph: f64) -> Option<(f64, f64)> {
    const U: f64 = 4e-16;
    let ok = |v: f64, e: f64| -> Option<(f64, f64)> { if v.is_finite() && v > 1e-9 && v < 1e9 && e.is_finite() { Some((v, e)) } else { None } };
    match t {
        T::Num(p) => { let (txt, im) = a.lits.get(p)?; if *im { return None; } let tt = if txt.starts_with('.') { format!("0{}", txt) } else { txt.clone() }; ok(tt.parse::<f64>().ok()?, 1.2e-16) }
        T::Ans(_) => ok(ph, 0.0),
        T::Grp(k, x) if k == "lp" => cond_eval(x, a, ph),
        T::Bin(op, l, r) => {
            let (x, ex) = cond_eval(l, a, ph)?; let (y, ey) = cond_eval(r, a, ph)?;
            match op.as_str() {
                "add" => ok(x + y, ex.max(ey) + U),
                "mul" => ok(x * y, ex + ey + U),
                "div" => ok(x / y, ex + ey + U),
                "pow" => { if y > 40.0 { return None; } ok(x.powf(y), y.abs() * ex + (y * x.ln()).abs() * ey + U * (1.0 + (y * x.ln()).abs())) }
                _ => None,
            }
        }
        T::Call(_, p, args) => {
            let f = a.fns.get(p)?;
            let vs: Option<Vec<(f64, f64)>> = args.iter().map(|x| cond_eval(x, a, ph)).collect();
            let vs = vs?;
            match (f.as_str(), vs.as_slice()) {
                ("Sqrt", [(x, ex)]) => ok(x.sqrt(), ex / 2.0 + U),
                ("Exp", [(x, ex)]) => { if *x > 20.0 { return None; } ok(x.exp(), x.abs() * ex + U * (1.0 + x.abs())) }
                ("Ln", [(x, ex)]) => { let l = x.ln(); if l <= 1e-3 { return None; } ok(l, ex / l.abs() + U) }
                ("Pow", [(x, ex), (y, ey)]) => { if *y > 40.0 { return None; } ok(x.powf(*y), y.abs() * ex + (y * x.ln()).abs() * ey + U * (1.0 + (y * x.ln()).abs())) }
                _ => None,
            }
        }
        _ => None,
    }
}

pub fn dec_f64(out: &mut Out, v: &Vocab, b: &Beh, rng: &mut Rng, max_assign: usize) {
    if b.verdict != "accept" || !b.renderable || b.numnum { return; }
    if !kinds_ok(b, &v.common["decKinds"]) { return; }
    let tree = b.tree.as_ref().unwrap();
    let lits: Vec<String> = ["2", "3", "0.5", "1.5", "7", "2.5", "10", "0.25", "1.25", "12", "0.1", "5"].iter().map(|s| s.to_string()).collect();
    let nlit = b.kinds.iter().filter(|k| *k == "num").count();
    let phs: Vec<(Decimal, f64)> = vec![(Decimal::new(3, 0), 3.0), (Decimal::new(25, 1), 2.5), (Decimal::new(125, 3), 0.125), (Decimal::new(17, 0), 17.0)];
    let has_ans = b.kinds.iter().any(|k| k == "ans");
    for (ai, a) in crate::engine::assignments(nlit, lits.len(), max_assign, rng).into_iter().enumerate() {
        let mut pol = Policy::all_fns("dec", ai);
        pol.lits = lits.clone();
        pol.fixed = a;
        pol.fns_allowed = v.common["decFns"].clone();
        let r = match render(v, "dec", &b.kinds, &pol) { Some(r) => r, None => return };
        for (pd, pf) in phs.iter().take(if has_ans { phs.len() } else { 1 }) {
            let scope = cond_eval(tree, &r.asg, *pf);
            let ctx = json!({"toks": b.kinds, "clause": "dec-f64"});
            let (od, of) = two_calls(out, "dec", &Val::D(*pd), "f64", &Val::F(*pf), &r.text, &json!({"kinds": b.kinds, "v": "accept"}), &ctx);
            let key = h64(&("dec-f64", &r.text, pf.to_bits()));
            out.stats.distinct.insert(key);
            let (_, err) = match scope { Some(x) => x, None => { note(out, "NotPositiveModerateOrOutsideSubLanguage"); continue; } };
            if err > 2e-11 { note(out, "IllConditioned"); continue; }
            out.stats.compared += 1;
            if tree.count_ops() >= 1 || matches!(tree, T::Call(..)) { out.stats.nontrivial.insert(key); }
            let f = match &of { Outcome::Ok(Val::F(f)) => *f, _ => { if of.returned() { out.finding("cross_decimal", "f64", &r.text, &Val::F(*pf), "Ok (positive well-conditioned expression)", &of.show(), ctx.clone()); } continue; } };
            match &od {
                Outcome::Ok(Val::D(d)) => {
                    let x = d.to_f64().unwrap_or(f64::NAN);
                    if (x - f).abs() <= 1e-9 * f.abs() { out.stats.matched += 1; }
                    else { out.finding("cross_decimal", "dec", &r.text, &Val::D(*pd), &format!("within 1e-9 relative of eval_f64's {:?}", f), &od.show(), ctx.clone()); }
                }
                o if o.returned() => out.finding("cross_decimal", "dec", &r.text, &Val::D(*pd), &format!("within 1e-9 relative of eval_f64's {:?}", f), &o.show(), ctx.clone()),
                _ => {}
            }
            if out.stats.samples.len() < 8 && out.stats.calls % 2001 < 2 { out.stats.samples.push(json!({"clause": "dec-f64", "input": r.text, "dec": od.show(), "f64": of.show()})); }
        }
    }
}
