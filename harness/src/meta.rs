//! Metamorphic relations on the real code, at the sites the specification computed
//! (C12 juxtaposition, C13 spellings, C14 placeholder, C20 substitution).  No oracle is needed:
//! two inputs the specification proves equivalent must have the identical outcome.
use crate::call::call;
use crate::engine::{Beh, Out, Rng};
use crate::render::{render, Policy, Rendered};
use crate::val::{Outcome, Val};
use crate::vocab::{Vocab, WHITE_SPACE};
use serde_json::{json, Value};

fn pair(out: &mut Out, cat: &str, e: &str, a: &str, b: &str, ph: &Val, oa: &Outcome, ob_opt: Option<Outcome>, ctx: &Value) {
    let ob = match ob_opt { Some(o) => o, None => { let (o, _) = call(e, b, ph); out.stats.calls += 1; o } };
    out.stats.metamorphic_pairs += 1;
    let key = crate::engine::h64(&(cat, e, a, b, ph.canon()));
    out.stats.distinct.insert(key);
    out.stats.nontrivial.insert(key);
    match &ob {
        Outcome::Panic(m) => out.finding("panic", e, b, ph, "Ok or Err", &format!("PANIC({})", m), ctx.clone()),
        Outcome::Budget => out.finding("budget", e, b, ph, "steps <= 4096+256*len", "step budget exceeded", ctx.clone()),
        _ => {}
    }
    if oa.canon() != ob.canon() && oa.returned() && ob.returned() {
        out.finding(cat, e, b, ph, &format!("same outcome as {:?}: {}", a, oa.show()), &ob.show(), json!({"original": a, "rewritten": b, "ctx": ctx}));
    }
    if out.stats.samples.len() < 8 && out.stats.metamorphic_pairs % 5003 == 1 {
        out.stats.samples.push(json!({"relation": cat, "e": e, "a": a, "b": b, "outcome": oa.show()}));
    }
}

fn join(pieces: &[String]) -> String { pieces.concat() }

/// C12: the implicit product and its explicit form ( A * ( R ) )
pub fn jux(out: &mut Out, e: &str, b: &Beh, r: &Rendered, outs: &[(Val, Outcome)]) {
    if !b.jux { return; }
    let ext = match b.raw["ext"].as_array() { Some(a) if !a.is_empty() => a, _ => return };
    let ex = b.raw["ex"].as_array().unwrap();
    let mut pieces = Vec::new();
    for (j, k) in ext.iter().enumerate() {
        let o = ex[j].as_u64().unwrap_or(0) as usize;
        if o > 0 { pieces.push(r.pieces[o - 1].clone()); }
        else { pieces.push(match k.as_str().unwrap() { "lp" => "(", "rp" => ")", _ => "*" }.to_string()); }
    }
    let t = join(&pieces);
    let ctx = json!({"toks": b.kinds, "explicit": ext});
    for (ph, oa) in outs { pair(out, "meta_jux", e, &r.text, &t, ph, oa, None, &ctx); }
}

fn ws_variants(text: &str, rng: &mut Rng, thorough: bool) -> Vec<String> {
    let chars: Vec<char> = text.chars().collect();
    let mut v = Vec::new();
    // every gap (and both ends) filled with rotating White_Space characters
    let mut s = String::new();
    let off = rng.below(25);
    for (i, c) in chars.iter().enumerate() { s.push(WHITE_SPACE[(off + i) % 25]); s.push(*c); }
    s.push(WHITE_SPACE[(off + chars.len()) % 25]);
    v.push(s);
    // one character at one position
    let n = if thorough { (chars.len() + 1) * 25 } else { 2 };
    for k in 0..n {
        let (pos, w) = if thorough { (k / 25, WHITE_SPACE[k % 25]) } else { (rng.below(chars.len() + 1), WHITE_SPACE[rng.below(25)]) };
        let mut t: String = chars[..pos].iter().collect();
        t.push(w);
        t.extend(chars[pos..].iter());
        v.push(t);
    }
    v
}

/// C13 on raw strings (well-formed or not): whitespace anywhere never changes the outcome
pub fn whitespace_only(out: &mut Out, e: &str, text: &str, outs: &[(Val, Outcome)], rng: &mut Rng, thorough: bool) {
    let ctx = json!({"raw_string": text});
    for t in ws_variants(text, rng, thorough && text.chars().count() <= 6) {
        for (ph, oa) in outs { pair(out, "meta_ws", e, text, &t, ph, oa, None, &ctx); }
    }
}

fn matching(kinds: &[String], open: usize) -> Option<usize> {
    let mut d = 0i32;
    for i in open..kinds.len() {
        match kinds[i].as_str() { "lp" | "lf" | "lc" => d += 1, "rp" | "rf" | "rc" => { d -= 1; if d == 0 { return Some(i); } } _ => {} }
    }
    None
}
fn top_comma(kinds: &[String], open: usize, close: usize) -> Option<usize> {
    let mut d = 0i32;
    for i in open + 1..close {
        match kinds[i].as_str() { "lp" | "lf" | "lc" => d += 1, "rp" | "rf" | "rc" => d -= 1, "comma" if d == 0 => return Some(i), _ => {} }
    }
    None
}

/// C13: whitespace, aliases, bracket notations, superscripts, prefix plus, redundant brackets
pub fn spellings(out: &mut Out, v: &Vocab, e: &str, b: &Beh, r: &Rendered, outs: &[(Val, Outcome)], pol: &Policy, rng: &mut Rng, thorough: bool) {
    let ctx = json!({"toks": b.kinds, "verdict": b.verdict});
    // whitespace: well-formed and malformed input alike
    let short = r.text.chars().count() <= 6;
    for t in ws_variants(&r.text, rng, thorough && short) {
        for (ph, oa) in outs { pair(out, "meta_ws", e, &r.text, &t, ph, oa, None, &ctx); }
    }
    // aliases: same canonical function / constant, another spelling (well-formed and malformed alike)
    let mut alt = r.pieces.clone();
    let mut changed = false;
    for (i, k) in b.kinds.iter().enumerate() {
        let p = i + 1;
        if let Some(f) = r.asg.fns.get(&p) {
            let names: Vec<String> = v.keywords_of(e, k).iter().filter(|kw| &kw.func == f).map(|kw| kw.name.clone()).collect();
            if names.len() > 1 {
                let cur = names.iter().position(|n| n == &r.pieces[i]).unwrap_or(0);
                alt[i] = names[(cur + 1 + rng.below(names.len() - 1)) % names.len()].clone();
                changed = true;
            }
        } else if k == "const" && r.asg.consts.get(&p).map(|c| c == "PI").unwrap_or(false) {
            alt[i] = if r.pieces[i] == "pi" { "π".into() } else { "pi".into() };
            changed = true;
        }
    }
    if changed {
        let t = join(&alt);
        for (ph, oa) in outs { pair(out, "meta_alias", e, &r.text, &t, ph, oa, None, &ctx); }
    }
    if b.verdict != "accept" { return; }
    // bracket notation <-> named function, per site
    for (i, k) in b.kinds.iter().enumerate() {
        let p = i + 1;
        let mut t: Option<String> = None;
        if (k == "lf" || k == "lc") && v.keywords_of(e, "f1").iter().any(|kw| kw.func == "Floor") {
            if let Some(c) = matching(&b.kinds, i) {
                let mut ps = r.pieces.clone();
                ps[i] = if k == "lf" { "floor(".into() } else { "ceil(".into() };
                ps[c] = ")".into();
                t = Some(join(&ps));
            }
        } else if k == "f1" && i + 1 < b.kinds.len() {
            let f = r.asg.fns.get(&p).map(|s| s.as_str()).unwrap_or("");
            if (f == "Floor" || f == "Ceil") && v.has_kind(e, "lf") {
                if let Some(c) = matching(&b.kinds, i + 1) {
                    let mut ps = r.pieces.clone();
                    ps[i] = String::new();
                    ps[i + 1] = if f == "Floor" { "⌊".into() } else { "⌈".into() };
                    ps[c] = if f == "Floor" { "⌋".into() } else { "⌉".into() };
                    t = Some(join(&ps));
                }
            }
        } else if k == "f2" && i + 1 < b.kinds.len() {
            let f = r.asg.fns.get(&p).map(|s| s.as_str()).unwrap_or("");
            if f == "Mod" || f == "Pow" {
                if let Some(c) = matching(&b.kinds, i + 1) {
                    if let Some(m) = top_comma(&b.kinds, i + 1, c) {
                        let mut ps = r.pieces.clone();
                        ps[i] = String::new();
                        ps[i + 1] = "((".into();
                        ps[m] = if f == "Mod" { ")%(".into() } else { ")^(".into() };
                        ps[c] = "))".into();
                        t = Some(join(&ps));
                    }
                }
            }
        }
        if let Some(t) = t { for (ph, oa) in outs { pair(out, "meta_notation", e, &r.text, &t, ph, oa, None, &ctx); } }
    }
    let sites = &b.raw["sites"];
    // superscript run <-> ^N at the sites the specification allows
    for s in sites["sup"].as_array().map(|a| a.to_vec()).unwrap_or_default() {
        let p = s.as_u64().unwrap() as usize;
        let mut ps = r.pieces.clone();
        ps[p - 1] = format!("^{}", r.asg.sups[&p]);
        let t = join(&ps);
        for (ph, oa) in outs { pair(out, "meta_sup", e, &r.text, &t, ph, oa, None, &ctx); }
        // the same site with digit runs at and beyond the ends of the integer types (a literal the tokenizer converts differently
        // from a superscript run shows only there), and with leading zeros
        if b.kinds.len() <= 4 {
            if let Some((ph, _)) = outs.first() {
                for l in ["9223372036854775807", "9223372036854775808", "18446744073709551616", "4294967296", "00000000000000000000002", "64"] {
                    let mut pa = r.pieces.clone();
                    pa[p - 1] = crate::vocab::sup_digits(l);
                    let ta = join(&pa);
                    let mut pb = r.pieces.clone();
                    pb[p - 1] = format!("^{}", l);
                    let tb = join(&pb);
                    let (oa, _) = call(e, &ta, ph);
                    out.stats.calls += 1;
                    pair(out, "meta_sup", e, &ta, &tb, ph, &oa, None, &ctx);
                }
            }
        }
    }
    // prefix plus before an operand
    for s in sites["plus"].as_array().map(|a| a.to_vec()).unwrap_or_default() {
        let p = s.as_u64().unwrap() as usize;
        let mut ps = r.pieces.clone();
        ps[p - 1] = format!("+{}", ps[p - 1]);
        let t = join(&ps);
        for (ph, oa) in outs { pair(out, "meta_plus", e, &r.text, &t, ph, oa, None, &ctx); }
    }
    // redundant round brackets around a complete subexpression
    for s in sites["wrap"].as_array().map(|a| a.to_vec()).unwrap_or_default() {
        let (lo, hi) = (s[0].as_u64().unwrap() as usize, s[1].as_u64().unwrap() as usize);
        let mut ps = r.pieces.clone();
        ps[lo - 1] = format!("({}", ps[lo - 1]);
        ps[hi - 1] = format!("{})", ps[hi - 1]);
        let t = join(&ps);
        for (ph, oa) in outs { pair(out, "meta_wrap", e, &r.text, &t, ph, oa, None, &ctx); }
    }
    let _ = pol;
}

/// literal text whose value is exactly the placeholder (when it has one)
pub fn literal_of(ph: &Val) -> Option<String> {
    use string_calculator::Number;
    let f = |x: f64| -> Option<String> {
        if !x.is_finite() || (x == 0.0 && x.is_sign_negative()) { return None; }
        let s = format!("{}", x.abs());
        if s.contains('e') || s.contains("inf") { return None; }
        if s.parse::<f64>().ok()? != x.abs() { return None; }
        Some(if x < 0.0 { format!("(-{})", s) } else { s })
    };
    // values without a literal: the constant expressions that produce them (C14 names NaN, the infinities and -0.0)
    let special = |x: f64, float_zero: &str| -> Option<String> {
        if x.is_nan() { Some("(0/0)".into()) } else if x == f64::INFINITY { Some("(1/0)".into()) } else if x == f64::NEG_INFINITY { Some("(-1/0)".into()) }
        else if x == 0.0 && x.is_sign_negative() { Some(format!("(-{})", float_zero)) } else { None }
    };
    match ph {
        Val::F(x) if !x.is_finite() || (*x == 0.0 && x.is_sign_negative()) => special(*x, "0"),
        Val::N(Number::Float(x)) if !x.is_finite() || (*x == 0.0 && x.is_sign_negative()) => special(*x, "0."),
        Val::F(x) => f(*x),
        Val::I(i) => if *i >= 0 { Some(format!("{}", i)) } else if *i > i64::MIN { Some(format!("(-{})", -i)) } else { None },
        Val::D(d) => { let s = format!("{}", d.abs()); Some(if d.is_sign_negative() && !d.is_zero() { format!("(-{})", s) } else if d.is_sign_negative() { return None } else { s }) }
        // unary minus of a complex number also flips the sign of a zero imaginary part, so a negative real
        // placeholder with +0.0 imaginary part has no literal form; with a non-zero imaginary part it has
        Val::C(c) => {
            if c.im == 0.0 && !c.im.is_sign_negative() { if c.re >= 0.0 && !c.re.is_sign_negative() { f(c.re) } else { None } }
            else if c.im != 0.0 && c.im.is_finite() && c.re.is_finite() && c.re != 0.0 {
                let re = format!("{}", c.re.abs()); let im = format!("{}", c.im.abs());
                if re.contains('e') || im.contains('e') { return None; }
                Some(format!("({}{}{}{}i)", if c.re < 0.0 { "-" } else { "" }, re, if c.im < 0.0 { "-" } else { "+" }, im))
            } else { None }
        }
        Val::N(Number::Integer(i)) => if *i >= 0 { Some(format!("{}", i)) } else if *i > i64::MIN { Some(format!("(-{})", -i)) } else { None },
        Val::N(Number::Float(x)) => f(*x).map(|s| if s.contains('.') { s } else if s.starts_with('(') { format!("{}.)", &s[..s.len() - 1]) } else { format!("{}.", s) }),
    }
}

/// C14: `@` read as a constant of the placeholder's value
pub fn placeholder_as_constant(out: &mut Out, e: &str, b: &Beh, r: &Rendered, outs: &[(Val, Outcome)]) {
    if b.verdict != "accept" || !b.kinds.iter().any(|k| k == "ans") { return; }
    let ctx = json!({"toks": b.kinds});
    for (ph, oa) in outs {
        if let Some(l) = literal_of(ph) {
            let ps: Vec<String> = r.pieces.iter().zip(b.kinds.iter()).map(|(p, k)| if k == "ans" { l.clone() } else { p.clone() }).collect();
            let t = join(&ps);
            pair(out, "meta_ans", e, &r.text, &t, ph, oa, None, &ctx);
        }
    }
}

/// C20: C[(E)] against C[@] with the placeholder bound to the value of E
pub fn substitution(out: &mut Out, v: &Vocab, e: &str, b: &Beh, r: &Rendered, samples: &[Vec<String>], pol: &Policy) {
    if b.verdict != "accept" || b.kinds.iter().filter(|k| *k == "ans").count() != 1 { return; }
    let hole = b.kinds.iter().position(|k| k == "ans").unwrap();
    let ph0 = crate::call::default_placeholder(e);
    for (si, s) in samples.iter().enumerate() {
        if !s.iter().all(|k| v.has_kind(e, k)) { continue; }
        let mut p2 = pol.clone();
        p2.offset = pol.offset + 5 + si;
        let re = match render(v, e, s, &p2) { Some(x) => x, None => continue };
        let (oe, _) = call(e, &re.text, &ph0);
        out.stats.calls += 1;
        let val = match &oe { Outcome::Ok(x) => x.clone(), _ => continue };
        let mut ps = r.pieces.clone();
        ps[hole] = format!("({})", re.text);
        let plugged = join(&ps);
        let (o1, _) = call(e, &plugged, &ph0);
        let (o2, _) = call(e, &r.text, &val);
        out.stats.calls += 2;
        let ctx = json!({"context": b.kinds, "E": s, "E_text": re.text, "value_of_E": val.show()});
        pair(out, "meta_subst", e, &format!("{} with @ = {}", r.text, val.show()), &plugged, &ph0, &o2, Some(o1), &ctx);
    }
    // subexpressions whose value is special: the result must carry everything the enclosing operation sees (sign of zero,
    // infinities, NaN, Integer/Float variant, Decimal scale, extreme integers)
    let special: &[&str] = match e {
        "f64" => &["-0", "0*-1", "-5%5", "1/0", "-1/0", "0/0", "0.1+0.2", "1/3", "2^0.5", "round(-0.4)", "10^308*10", "5-5", "1+1/10^20", "1+0.0000000001", "1-1/10^17",
                   "max(0/0,0)", "min(1,0/0)", "med(0/0,1,2)", "avg(1/0,1)"],
        "num" => &["0.0*-1", "-0.", "7/2", "2^63", "3.0", "6/2", "1/0", "0/0", "2^62+2^62", "9007199254740993", "0.5+0.5", "-9223372036854775807-1",
                   // Integer operations that leave the i64 range: the value of the subexpression is the rounded double, nothing more
                   "3037000555*3037000665", "4294967296*4294967296", "9223372036854775807*3", "9223372036854775807+9223372036854775807", "-9223372036854775807*9223372036854775807", "21!",
                   // a negation that leaves the i64 range (its value is the Float 2^63: a second negation does not bring the Integer back)
                   "-(-9223372036854775807-1)", "-(0-9223372036854775807-1)", "abs(-9223372036854775807-1)", "-9223372036854775808", "9223372036854775808",
                   "max(0/0,0)", "min(1,0/0)", "med(0/0,1,2)", "avg(1/0,1)"],
        "dec" => &["1.10", "1.50*2", "0.1+0.2", "1/3", "2.0", "-0.0", "79228162514264337593543950335", "0.0000000000000000000000000001"],
        "cpx" => &["-0", "0*-1", "i*i", "2i", "1/0", "-i", "0-0i", "1/3+i/7",
                   // sums next to 1 whose rounding loses the small term (a function that looks through its argument keeps it)
                   "1+1/10^20", "1+0.0000000001", "1+i/10^9", "1-1/10^17", "1+1/3", "2^0.5*2^0.5"],
        _ => &["-9223372036854775807-1", "7/2", "9223372036854775807", "-7%3", "0*-1", "-9223372036854775808", "9223372036854775808", "- 9223372036854775808"],
    };
    // the context in every spelling of its first function token (the enclosing operation matters: an aggregate of the same kind,
    // a function with a branch cut, ...), when it has one and is short; otherwise in the one rendering at hand
    let mut renderings: Vec<Rendered> = vec![r.clone()];
    if b.kinds.len() <= 6 {
        if let Some(k) = b.kinds.iter().find(|k| matches!(k.as_str(), "f1" | "f2" | "fv" | "fa")) {
            let n = v.keywords_of(e, k).len();
            for i in 0..n {
                let mut p2 = Policy::all_fns(e, pol.offset);
                p2.fn_first = Some(i);
                if let Some(x) = render(v, e, &b.kinds, &p2) { if x.text != r.text { renderings.push(x); } }
            }
        }
    }
    let all = b.kinds.len() <= 6;
    for (si, s) in special.iter().enumerate() {
        if !all && out.stats.items % 4 != (si as u64) % 4 { continue; }          // long contexts: a quarter of the subexpressions each
        let (oe, _) = call(e, s, &ph0);
        out.stats.calls += 1;
        let val = match &oe { Outcome::Ok(x) => x.clone(), _ => continue };
        for rr in renderings.iter() {
            let mut ps = rr.pieces.clone();
            ps[hole] = format!("({})", s);
            let plugged = join(&ps);
            let (o1, _) = call(e, &plugged, &ph0);
            let (o2, _) = call(e, &rr.text, &val);
            out.stats.calls += 2;
            let ctx = json!({"context": b.kinds, "E_text": s, "value_of_E": val.show()});
            pair(out, "meta_subst", e, &format!("{} with @ = {}", rr.text, val.show()), &plugged, &ph0, &o2, Some(o1), &ctx);
        }
    }
}
