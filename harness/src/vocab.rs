//! Vocabulary tables, read from work/vocab.json (exported by TLC from spec/Vocab.tla).
//! The harness has no second copy of names, classes or levels.
use serde_json::Value;
use std::collections::BTreeMap;

#[derive(Clone, Debug)]
pub struct Keyword {
    pub name: String,
    pub func: String,
    pub cls: String,
    pub evals: Vec<String>,
}

#[derive(Clone, Debug)]
pub struct Vocab {
    pub evaluators: Vec<String>,
    pub kinds: BTreeMap<String, Vec<String>>,
    /// evaluator -> abstract char -> kind
    pub single: BTreeMap<String, BTreeMap<String, String>>,
    pub keywords: Vec<Keyword>,
    pub has_const: BTreeMap<String, bool>,
    pub has_rad: BTreeMap<String, bool>,
    pub has_imag: BTreeMap<String, bool>,
    pub has_point: BTreeMap<String, bool>,
    pub has_shift: BTreeMap<String, bool>,
    /// the common sub-languages of C15 (spec/Common.tla)
    pub common: BTreeMap<String, Vec<String>>,
    /// function -> name of its real-domain class (spec/Common.tla RealDomain)
    pub real_domain: BTreeMap<String, String>,
}

fn strs(v: &Value) -> Vec<String> {
    v.as_array().map(|a| a.iter().filter_map(|x| x.as_str().map(String::from)).collect()).unwrap_or_default()
}
fn boolmap(v: &Value) -> BTreeMap<String, bool> {
    v.as_object().map(|o| o.iter().map(|(k, b)| (k.clone(), b.as_bool().unwrap_or(false))).collect()).unwrap_or_default()
}

impl Vocab {
    pub fn load(path: &str) -> Vocab {
        let txt = std::fs::read_to_string(path).unwrap_or_else(|e| panic!("cannot read {}: {}", path, e));
        let v: Value = serde_json::from_str(&txt).expect("vocab.json");
        let kinds = v["kinds"].as_object().unwrap().iter().map(|(k, a)| (k.clone(), strs(a))).collect();
        let single = v["single"].as_object().unwrap().iter()
            .map(|(e, m)| (e.clone(), m.as_object().unwrap().iter().map(|(c, k)| (c.clone(), k.as_str().unwrap().to_string())).collect()))
            .collect();
        let keywords = v["keywords"].as_array().unwrap().iter().map(|k| Keyword {
            name: k["name"].as_str().unwrap().into(),
            func: k["fn"].as_str().unwrap().into(),
            cls: k["cls"].as_str().unwrap().into(),
            evals: strs(&k["in"]),
        }).collect();
        Vocab {
            evaluators: strs(&v["evaluators"]),
            kinds,
            single,
            keywords,
            has_const: boolmap(&v["hasConst"]),
            has_rad: boolmap(&v["hasRadWord"]),
            has_imag: boolmap(&v["hasImag"]),
            has_point: boolmap(&v["hasPoint"]),
            has_shift: boolmap(&v["hasShift"]),
            common: v["common"].as_object().map(|o| o.iter().filter(|(_, a)| a.is_array()).map(|(k, a)| (k.clone(), strs(a))).collect()).unwrap_or_default(),
            real_domain: v["common"]["realDomain"].as_object().map(|o| o.iter().map(|(k, a)| (k.clone(), a.as_str().unwrap_or("").to_string())).collect()).unwrap_or_default(),
        }
    }
    pub fn keywords_of(&self, e: &str, cls: &str) -> Vec<&Keyword> {
        let mut v: Vec<&Keyword> = self.keywords.iter().filter(|k| k.cls == cls && k.evals.iter().any(|x| x == e)).collect();
        v.sort_by(|a, b| a.name.cmp(&b.name));
        v
    }
    pub fn all_keywords_of(&self, e: &str) -> Vec<&Keyword> {
        let mut v: Vec<&Keyword> = self.keywords.iter().filter(|k| k.evals.iter().any(|x| x == e)).collect();
        v.sort_by(|a, b| a.name.cmp(&b.name));
        v
    }
    /// the abstract character that spells a one-character kind in evaluator e
    pub fn single_char_of(&self, e: &str, kind: &str) -> Vec<String> {
        let mut v: Vec<String> = self.single[e].iter().filter(|(_, k)| k.as_str() == kind).map(|(c, _)| c.clone()).collect();
        v.sort();
        v
    }
    pub fn has_kind(&self, e: &str, kind: &str) -> bool {
        self.kinds[e].iter().any(|k| k == kind)
    }
}

/// abstract character name -> concrete text
pub fn concrete(c: &str) -> String {
    match c {
        "PI_SYM" => "π".into(),
        "LFLOOR" => "⌊".into(),
        "RFLOOR" => "⌋".into(),
        "LCEIL" => "⌈".into(),
        "RCEIL" => "⌉".into(),
        "DEG" => "°".into(),
        "SUP0" => "⁰".into(),
        "SUP1" => "¹".into(),
        "SUP2" => "²".into(),
        "SUP3" => "³".into(),
        "SUP4" => "⁴".into(),
        "SUP5" => "⁵".into(),
        "SUP6" => "⁶".into(),
        "SUP7" => "⁷".into(),
        "SUP8" => "⁸".into(),
        "SUP9" => "⁹".into(),
        "WS" => " ".into(),
        "OTHER" => "#".into(),
        _ => c.into(),
    }
}

/// concrete character -> abstract name (the projection used for trace events)
pub fn abstract_char(c: char) -> String {
    match c {
        'π' => "PI_SYM".into(),
        '⌊' => "LFLOOR".into(),
        '⌋' => "RFLOOR".into(),
        '⌈' => "LCEIL".into(),
        '⌉' => "RCEIL".into(),
        '°' => "DEG".into(),
        '⁰' => "SUP0".into(),
        '¹' => "SUP1".into(),
        '²' => "SUP2".into(),
        '³' => "SUP3".into(),
        '⁴' => "SUP4".into(),
        '⁵' => "SUP5".into(),
        '⁶' => "SUP6".into(),
        '⁷' => "SUP7".into(),
        '⁸' => "SUP8".into(),
        '⁹' => "SUP9".into(),
        c if c.is_whitespace() => "WS".into(),
        c if c.is_ascii_graphic() => c.to_string(),
        _ => "OTHER".into(),
    }
}

pub fn abstract_chars(s: &str) -> Vec<String> {
    s.chars().map(abstract_char).collect()
}

pub fn sup_digits(d: &str) -> String {
    d.chars().map(|c| match c {
        '0' => '⁰', '1' => '¹', '2' => '²', '3' => '³', '4' => '⁴',
        '5' => '⁵', '6' => '⁶', '7' => '⁷', '8' => '⁸', _ => '⁹',
    }).collect()
}

/// The 25 Unicode White_Space code points.
pub const WHITE_SPACE: [char; 25] = [
    '\u{0009}', '\u{000A}', '\u{000B}', '\u{000C}', '\u{000D}', '\u{0020}', '\u{0085}', '\u{00A0}', '\u{1680}',
    '\u{2000}', '\u{2001}', '\u{2002}', '\u{2003}', '\u{2004}', '\u{2005}', '\u{2006}', '\u{2007}', '\u{2008}',
    '\u{2009}', '\u{200A}', '\u{2028}', '\u{2029}', '\u{202F}', '\u{205F}', '\u{3000}',
];

/// foreign characters: not in any evaluator's alphabet
/// (ASCII, control, accented and Greek letters, a combining mark, digits of other scripts - and the neighbours and look-alikes of
/// every non-ASCII character the evaluators do accept: superscript letters and signs next to the superscript digits, subscript
/// digits, brackets next to the floor / ceiling brackets, ring / ordinal signs next to the degree sign, variants of pi, full-width forms)
pub const FOREIGN: [char; 60] = ['#', '$', 'x', 'Z', '~', '\u{0}', 'é', 'λ', '√', '\u{0301}', '٣', '𝟙',
    // characters whose code point ends in the byte of an ASCII symbol of the grammars (+ - * / ^ % ( ) , @ ! .): a cast to u8 aliases them
    '\u{012B}', '\u{012D}', '\u{012A}', '\u{012F}', '\u{015E}', '\u{0125}', '\u{0128}', '\u{0129}', '\u{012C}', '\u{0140}', '\u{0121}', '\u{012E}',
    '\u{2071}', '\u{2072}', '\u{2073}', '\u{207A}', '\u{207B}', '\u{207F}', '\u{2080}', '\u{2082}', '\u{2089}', '\u{00AA}', '\u{00BA}', '\u{02DA}',
    '\u{2307}', '\u{230C}', '\u{2320}', '\u{27E6}', '\u{3008}', '\u{03A0}', '\u{03D6}', '\u{1D70B}', '\u{FF11}', '\u{FF0B}', '\u{FF08}', '\u{FF09}',
    '\u{2212}', '\u{00D7}', '\u{00F7}', '\u{2215}', '\u{FF20}', '\u{FE6B}', '\u{2032}', '=', '\'', '"', '\\', '\u{7F}'];

/// a parser event of the hook (`G<n>` / `T<Debug form of the token>`) in the specification's terms: ["G", n] / ["T", kind]
pub fn abstract_event(v: &Vocab, ev: &str) -> serde_json::Value {
    use serde_json::json;
    if let Some(n) = ev.strip_prefix('G') { return json!(["G", n.parse::<u64>().unwrap_or(99)]); }
    if let Some(n) = ev.strip_prefix('L') { if let Ok(k) = n.parse::<u64>() { return json!(["L", k]); } }
    let t = ev.strip_prefix('T').unwrap_or(ev);
    let kind: String = match t {
        "Add" => "add".into(), "Subtract" => "sub".into(), "Multiply" => "mul".into(), "Divide" => "div".into(), "Caret" => "pow".into(),
        "ExclamationMark" => "bang".into(), "Modulo" => "mod".into(), "LeftParen" => "lp".into(), "RightParen" => "rp".into(),
        "LeftFloor" => "lf".into(), "RightFloor" => "rf".into(), "LeftCeiling" => "lc".into(), "RightCeiling" => "rc".into(),
        "E" | "Pi" => "const".into(), "Comma" => "comma".into(), "DegToRad" => "deg".into(), "RadToDeg" => "rad".into(),
        "Ampersand" => "and".into(), "Bar" => "or".into(), "LeftShift" => "shl".into(), "RightShift" => "shr".into(),
        "Ans" => "ans".into(), "Eof" => "eof".into(),
        x if x.starts_with("Superscript(") => "sup".into(),
        x if x.starts_with("Num(") => "num".into(),
        x if x.starts_with("ExplicitFunction(") => {
            let f = &x["ExplicitFunction(".len()..x.len() - 1];
            v.keywords.iter().find(|k| k.func == f).map(|k| k.cls.clone()).unwrap_or_else(|| format!("unknown-function:{}", f))
        }
        other => format!("unknown-token:{}", other),
    };
    json!(["T", kind])
}
