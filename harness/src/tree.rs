//! Trees as emitted by the specification (ParseFn nodes, JSON arrays).
use serde_json::Value;

#[derive(Clone, Debug, PartialEq)]
pub enum T {
    Num(usize),
    Ans(usize),
    Const(usize),
    Zero(usize),
    Neg(Box<T>),
    Fact(Box<T>),
    Deg(Box<T>),
    Rad(Box<T>),
    PSup(Box<T>, usize),
    /// "lp" | "lf" | "lc"
    Grp(String, Box<T>),
    /// class, position of the function token, arguments
    Call(String, usize, Vec<T>),
    Bin(String, Box<T>, Box<T>),
    IMul(Box<T>, Box<T>),
}

impl T {
    pub fn from_json(v: &Value) -> T {
        let a = v.as_array().expect("tree node");
        let tag = a[0].as_str().expect("tag");
        let pos = |i: usize| a[i].as_u64().unwrap() as usize;
        let sub = |i: usize| Box::new(T::from_json(&a[i]));
        match tag {
            "num" => T::Num(pos(1)),
            "ans" => T::Ans(pos(1)),
            "const" => T::Const(pos(1)),
            "zero" => T::Zero(pos(1)),
            "neg" => T::Neg(sub(1)),
            "fact" => T::Fact(sub(1)),
            "deg" => T::Deg(sub(1)),
            "rad" => T::Rad(sub(1)),
            "psup" => T::PSup(sub(1), pos(2)),
            "lp" | "lf" | "lc" => T::Grp(tag.into(), sub(1)),
            "f1" | "f2" | "fv" | "fa" => T::Call(tag.into(), pos(1), a[2].as_array().unwrap().iter().map(T::from_json).collect()),
            "imul" => T::IMul(sub(1), sub(2)),
            _ => T::Bin(tag.into(), sub(1), sub(2)),
        }
    }
    pub fn to_json(&self) -> Value {
        use serde_json::json;
        match self {
            T::Num(p) => json!(["num", p]),
            T::Ans(p) => json!(["ans", p]),
            T::Const(p) => json!(["const", p]),
            T::Zero(p) => json!(["zero", p]),
            T::Neg(x) => json!(["neg", x.to_json()]),
            T::Fact(x) => json!(["fact", x.to_json()]),
            T::Deg(x) => json!(["deg", x.to_json()]),
            T::Rad(x) => json!(["rad", x.to_json()]),
            T::PSup(x, p) => json!(["psup", x.to_json(), p]),
            T::Grp(k, x) => json!([k, x.to_json()]),
            T::Call(c, p, a) => json!([c, p, a.iter().map(|x| x.to_json()).collect::<Vec<_>>()]),
            T::Bin(o, l, r) => json!([o, l.to_json(), r.to_json()]),
            T::IMul(l, r) => json!(["imul", l.to_json(), r.to_json()]),
        }
    }
    /// erasure used to compare a tree the harness claims with the one the spec derives:
    /// positions dropped, round groups dropped, implicit product = product
    pub fn erase(&self) -> Value {
        use serde_json::json;
        match self {
            T::Num(_) => json!(["num"]),
            T::Ans(_) => json!(["ans"]),
            T::Const(_) => json!(["const"]),
            T::Zero(_) => json!(["zero"]),
            T::Neg(x) => json!(["neg", x.erase()]),
            T::Fact(x) => json!(["fact", x.erase()]),
            T::Deg(x) => json!(["deg", x.erase()]),
            T::Rad(x) => json!(["rad", x.erase()]),
            T::PSup(x, _) => json!(["psup", x.erase()]),
            T::Grp(k, x) => if k == "lp" { x.erase() } else { json!([k, x.erase()]) },
            T::Call(c, _, a) => json!([c, a.iter().map(|x| x.erase()).collect::<Vec<_>>()]),
            T::Bin(o, l, r) => json!([o, l.erase(), r.erase()]),
            T::IMul(l, r) => json!(["mul", l.erase(), r.erase()]),
        }
    }
    pub fn count_nodes(&self) -> usize {
        match self {
            T::Num(_) | T::Ans(_) | T::Const(_) | T::Zero(_) => 1,
            T::Neg(x) | T::Fact(x) | T::Deg(x) | T::Rad(x) | T::PSup(x, _) | T::Grp(_, x) => 1 + x.count_nodes(),
            T::Call(_, _, a) => 1 + a.iter().map(|x| x.count_nodes()).sum::<usize>(),
            T::Bin(_, l, r) | T::IMul(l, r) => 1 + l.count_nodes() + r.count_nodes(),
        }
    }
    /// number of operator nodes (binary, postfix, prefix, implicit product)
    pub fn count_ops(&self) -> usize {
        match self {
            T::Num(_) | T::Ans(_) | T::Const(_) | T::Zero(_) => 0,
            T::Grp(_, x) => x.count_ops(),
            T::Neg(x) | T::Fact(x) | T::Deg(x) | T::Rad(x) | T::PSup(x, _) => 1 + x.count_ops(),
            T::Call(_, _, a) => a.iter().map(|x| x.count_ops()).sum::<usize>(),
            T::Bin(_, l, r) | T::IMul(l, r) => 1 + l.count_ops() + r.count_ops(),
        }
    }
}
