//! Direction A: replay of the behaviours TLC enumerated (spec/MCGrammar.tla) into the real code.
//! One behaviour = a token-kind sequence with the specification's verdict, tree and rewrite sites.
use crate::call::{call, default_placeholder, step_bound, Ticks};
use crate::expect::{compare, expected, Verdict};
use crate::render::{render, Policy, Rendered};
use crate::tree::T;
use crate::val::{Outcome, Val};
use crate::vocab::{abstract_chars, Vocab};
use serde_json::{json, Value};
use std::collections::HashSet;
use std::hash::{Hash, Hasher};
use std::io::Write;

pub fn h64<T: Hash>(t: &T) -> u64 {
    let mut h = std::collections::hash_map::DefaultHasher::new();
    t.hash(&mut h);
    h.finish()
}

/// small deterministic generator (splitmix64)
pub struct Rng(pub u64);
impl Rng {
    pub fn next(&mut self) -> u64 {
        self.0 = self.0.wrapping_add(0x9E3779B97F4A7C15);
        let mut z = self.0;
        z = (z ^ (z >> 30)).wrapping_mul(0xBF58476D1CE4E5B9);
        z = (z ^ (z >> 27)).wrapping_mul(0x94D049BB133111EB);
        z ^ (z >> 31)
    }
    pub fn below(&mut self, n: usize) -> usize { if n == 0 { 0 } else { (self.next() % n as u64) as usize } }
    pub fn chance(&mut self, num: u64, den: u64) -> bool { self.next() % den < num }
}

pub struct Out {
    pub findings: std::io::BufWriter<std::fs::File>,
    pub events: std::io::BufWriter<std::fs::File>,
    pub hb: Option<std::fs::File>,
    /// outcomes of calls whose value is not asserted (unspecified rules): compared between build profiles
    pub unspec: Option<std::io::BufWriter<std::fs::File>>,
    pub stats: Stats,
    pub event_every: u64,
    pub event_cap: u64,
    pub profile: String,
    /// the operations the statement of the property under check speaks about; a tree that uses anything else is executed
    /// (panics, budget) but its value is not asserted by this check
    pub scope: Option<Scope>,
    /// the vocabulary, when parser events are recorded (they are translated into token kinds)
    pub vocab_for_events: Option<Vocab>,
    /// when set: the input of the call about to be made is written here, so that a hang or an abort can be attributed to it
    pub cur_file: Option<String>,
}

#[derive(Clone, Debug, Default)]
pub struct Scope {
    pub ops: Vec<String>,
    pub fns: Vec<String>,
}

impl Scope {
    pub fn from_job(job: &Value) -> Option<Scope> {
        let sc = job.get("scope")?;
        if !sc.is_object() { return None; }
        let strs = |k: &str| -> Vec<String> { sc[k].as_array().map(|a| a.iter().filter_map(|x| x.as_str().map(String::from)).collect()).unwrap_or_default() };
        Some(Scope { ops: strs("ops"), fns: strs("fns") })
    }
    pub fn covers(&self, t: &T, a: &crate::render::Asg) -> bool {
        let op = |o: &str| self.ops.iter().any(|x| x == o);
        match t {
            T::Num(_) | T::Ans(_) | T::Zero(_) => true,
            T::Const(_) => op("const"),
            T::Neg(x) => op("neg") && self.covers(x, a),
            T::Fact(x) => op("fact") && self.covers(x, a),
            T::Deg(x) => op("deg") && self.covers(x, a),
            T::Rad(x) => op("rad") && self.covers(x, a),
            T::PSup(x, _) => op("pow") && self.covers(x, a),
            T::Grp(k, x) => (k == "lp" || (k == "lf" && self.fns.iter().any(|f| f == "Floor")) || (k == "lc" && self.fns.iter().any(|f| f == "Ceil"))) && self.covers(x, a),
            T::Call(_, p, args) => a.fns.get(p).map_or(false, |f| self.fns.iter().any(|x| x == f)) && args.iter().all(|x| self.covers(x, a)),
            T::Bin(o, l, r) => op(o) && self.covers(l, a) && self.covers(r, a),
            T::IMul(l, r) => op("mul") && self.covers(l, a) && self.covers(r, a),
        }
    }
}

#[derive(Default)]
pub struct Stats {
    pub items: u64,
    pub calls: u64,
    pub compared: u64,
    pub matched: u64,
    pub not_asserted: u64,
    pub not_asserted_rules: std::collections::BTreeMap<String, u64>,
    pub findings: u64,
    pub by_cat: std::collections::BTreeMap<String, u64>,
    pub distinct: HashSet<u64>,
    pub nontrivial: HashSet<u64>,
    pub events: u64,
    pub max_ticks_ratio: f64,
    pub max_ticks: u64,
    pub samples: Vec<Value>,
    pub metamorphic_pairs: u64,
    pub trees_compared: u64,
}

impl Out {
    pub fn heartbeat(&mut self, idx: u64) {
        if let Some(f) = &mut self.hb {
            use std::os::unix::fs::FileExt;
            let _ = f.write_at(format!("{:<20}", idx).as_bytes(), 0);
        }
    }
    pub fn finding(&mut self, cat: &str, e: &str, input: &str, ph: &Val, expected: &str, actual: &str, extra: Value) {
        self.stats.findings += 1;
        *self.stats.by_cat.entry(cat.to_string()).or_insert(0) += 1;
        let line = json!({"cat": cat, "e": e, "input": input, "chars": abstract_chars(input), "ph": ph.canon(), "ph_show": ph.show(),
                          "expected": expected, "actual": actual, "profile": self.profile, "extra": extra});
        let _ = writeln!(self.findings, "{}", line);
    }
    pub fn event(&mut self, e: &str, input: &str, ph: &Val, o: &Outcome, t: &Ticks, claim: Value, force: bool) {
        let n = self.stats.calls;
        // accepted inputs are sampled ten times as densely as rejected ones (their values are what the spec can decide)
        let every = if o.is_ok() { (self.event_every / 10).max(1) } else { self.event_every };
        if !force && (self.event_every == 0 || n % every != 0 || self.stats.events >= self.event_cap) { return; }
        // TLC re-parses every recorded input with recursive operators: inputs beyond 100 characters cost it seconds each; they are
        // executed and their step count is compared with the bound here, but only every tenth is handed to the trace specification
        if !force && input.chars().count() > 100 && n % (every * 10) != 0 { return; }
        self.stats.events += 1;
        let val = match o { Outcome::Ok(v) => v.abstract_json(), _ => json!({"t": "none"}) };
        let mut line = json!({"ev": "Call", "e": e, "chars": abstract_chars(input), "len": input.chars().count(),
                          "ph": ph.abstract_json(), "st": o.status(), "val": val, "canon": o.canon(),
                          "ticks": t.total(), "tk": {"lex": t.lex, "parse": t.parse, "eval": t.eval, "loops": t.loops}, "claim": claim});
        if let Some(g) = crate::call::last_tree() { if let Some(sh) = crate::ast::shape_of_debug(&g) { line["ast"] = crate::ast::flat(&sh); } }
        if let Some(v) = &self.vocab_for_events {
            // the events of the call just made (this thread): the step-level trace of the parser (spec/ParserTrace.tla)
            let pev: Vec<Value> = crate::call::last_events().iter().map(|x| crate::vocab::abstract_event(v, x)).collect();
            line["pev"] = Value::Array(pev);
        }
        let _ = writeln!(self.events, "{}", line);
    }
    pub fn note_ticks(&mut self, input: &str, t: &Ticks) {
        let len = input.chars().count().max(1);
        let r = t.total() as f64 / len as f64;
        if r > self.stats.max_ticks_ratio { self.stats.max_ticks_ratio = r; }
        if t.total() > self.stats.max_ticks { self.stats.max_ticks = t.total(); }
    }
}

/// nanoseconds this thread has spent on a processor (first field of /proc/thread-self/schedstat)
fn thread_cpu_ns() -> Option<u64> {
    std::fs::read_to_string("/proc/thread-self/schedstat").ok()?.split_whitespace().next()?.parse().ok()
}

/// one checked call: evaluate, record, compare with the expectation; returns the outcome
pub fn checked_call(out: &mut Out, e: &str, input: &str, ph: &Val, exp: Option<&crate::expect::Exp>, claim: Value, nontrivial: bool, ctx: &Value) -> Outcome {
    if let Some(f) = &out.cur_file { let _ = std::fs::write(f, input); }
    let t0 = std::time::Instant::now();
    let (o, t) = call(e, input, ph);
    // C02 "returns promptly": work that the step counters do not see (a loop without a tick).  A call normally takes microseconds;
    // one that takes more than a second is repeated twice, and reported only if the fastest of the three is still that slow
    // (so that a descheduled process cannot raise the alarm).
    if t0.elapsed().as_millis() > 1000 && input.chars().count() <= 256 {
        let mut best = t0.elapsed();
        for _ in 0..2 {
            let (t1, c1) = (std::time::Instant::now(), thread_cpu_ns());
            let _ = call(e, input, ph);
            // processor time of this thread where the kernel reports it, else wall time
            let spent = match (c1, thread_cpu_ns()) { (Some(a), Some(b)) if b >= a => std::time::Duration::from_nanos(b - a), _ => t1.elapsed() };
            best = best.min(spent);
        }
        if best.as_millis() > 1000 {
            out.finding("budget", e, input, ph, "the call returns promptly (microseconds; bound: 4096+256*len counted steps)", &format!("{} ms for {} counted steps", best.as_millis(), t.total()), ctx.clone());
        }
    }
    out.stats.calls += 1;
    out.note_ticks(input, &t);
    let key = h64(&(e, input, ph.canon()));
    out.stats.distinct.insert(key);
    if nontrivial { out.stats.nontrivial.insert(key); }
    // C02: the deterministic counter against the bound (the hook panics at bound+1; this also covers the read-back)
    if t.total() > step_bound(input.chars().count()) && !matches!(o, Outcome::Budget) {
        out.finding("budget", e, input, ph, "steps <= 4096+256*len", &format!("{} steps", t.total()), ctx.clone());
    }
    let mut force = false;
    // the tree the code's parser built against the tree of the specification's parser (no oracle involved)
    if let (Some(x), true) = (exp, o.returned()) {
        let got = crate::call::last_tree();
        out.stats.trees_compared += 1;
        match (&x.shape, &got) {
            (Some(want), Some(g)) => {
                let gs = crate::ast::shape_of_debug(g);
                if gs.as_ref() != Some(want) {
                    out.finding("ast", e, input, ph, &format!("the parser builds {}", want), &format!("{}", gs.unwrap_or(Value::String(g.clone()))), ctx.clone());
                    force = true;
                }
            }
            (None, Some(g)) if x.no_tree => {
                out.finding("ast", e, input, ph, "the parser returns no tree (the grammar rejects the input)", &format!("{}", crate::ast::shape_of_debug(g).unwrap_or(Value::String(g.clone()))), ctx.clone());
                force = true;
            }
            _ => {}
        }
    }
    match exp {
        Some(x) => {
            out.stats.compared += 1;
            match compare(x, &o) {
                Verdict::Match => out.stats.matched += 1,
                Verdict::NotAsserted(r) => {
                    out.stats.not_asserted += 1;
                    *out.stats.not_asserted_rules.entry(r.to_string()).or_insert(0) += 1;
                    if let Some(w) = &mut out.unspec { let _ = writeln!(w, "{}\t{}\t{}\t{}\t{}", key, o.canon(), e, ph.canon(), input.replace('\t', " ")); }
                }
                Verdict::Mismatch(cat, msg) => {
                    force = true;
                    let exps = match &x.res { Ok(v) => format!("{:?}", v), Err(s) => format!("{:?}", s) };
                    out.finding(cat, e, input, ph, &exps, &format!("{} [{}]", o.show(), msg), ctx.clone());
                }
            }
        }
        None => {
            match &o {
                Outcome::Panic(m) => { force = true; out.finding("panic", e, input, ph, "Ok or Err", &format!("PANIC({})", m), ctx.clone()); }
                Outcome::Budget => { force = true; out.finding("budget", e, input, ph, "steps <= 4096+256*len", "step budget exceeded", ctx.clone()); }
                _ => {}
            }
        }
    }
    out.event(e, input, ph, &o, &t, claim, force);
    o
}

/// expectation for an input the specification rejects
pub fn reject_exp() -> crate::expect::Exp {
    crate::expect::Exp { res: Err(crate::refsem::Stop::Err("rejected by the grammar")), prec: Default::default(), ops: 0, shape: None, no_tree: true }
}

pub struct Beh {
    pub kinds: Vec<String>,
    pub verdict: String,
    pub tree: Option<T>,
    pub numnum: bool,
    pub renderable: bool,
    pub jux: bool,
    pub raw: Value,
}

pub fn parse_beh(v: &Value) -> Beh {
    let kinds: Vec<String> = v["toks"].as_array().unwrap().iter().map(|k| k.as_str().unwrap().to_string()).collect();
    let verdict = v["v"].as_str().unwrap().to_string();
    let tree = if verdict == "accept" { Some(T::from_json(&v["tree"])) } else { None };
    Beh { kinds, verdict, tree, numnum: v["fl"]["numnum"].as_bool().unwrap_or(false), renderable: v["fl"]["renderable"].as_bool().unwrap_or(true),
          jux: v["fl"]["jux"].as_bool().unwrap_or(false), raw: v.clone() }
}

pub fn placeholder_pool(e: &str, full: bool) -> Vec<Val> {
    use num_complex::Complex;
    use rust_decimal::Decimal;
    use string_calculator::Number;
    let mut v: Vec<Val> = match e {
        "f64" => vec![Val::F(3.0), Val::F(-2.5)],
        "i64" => vec![Val::I(3), Val::I(-7)],
        "dec" => vec![Val::D(Decimal::new(3, 0)), Val::D(Decimal::new(-25, 1))],
        "cpx" => vec![Val::C(Complex::new(3.0, 0.0)), Val::C(Complex::new(1.5, -2.0))],
        _ => vec![Val::N(Number::Integer(3)), Val::N(Number::Float(-2.5))],
    };
    if full {
        let extra: Vec<Val> = match e {
            "f64" => [f64::NAN, f64::INFINITY, f64::NEG_INFINITY, -0.0, 0.0, 5e-324, -5e-324, f64::MAX, f64::MIN, 9007199254740993.0, 0.1, 1e300, 1e-300, 170.0, 171.0, 1e18,
                      // the integer-type boundaries as doubles (an implementation may take an integer detour there)
                      9223372036854775808.0, -9223372036854775808.0, 9223372036854774784.0, 18446744073709551616.0, 4294967296.0, 2147483648.0, -2147483649.0]
                .iter().map(|x| Val::F(*x)).collect(),
            "i64" => [i64::MIN, i64::MAX, i64::MIN + 1, 0, 1, -1, 1 << 31, 1 << 32, 3037000500, 1 << 62, 63, 64, 20, 21]
                .iter().map(|x| Val::I(*x)).collect(),
            "dec" => vec![Decimal::MAX, Decimal::MIN, Decimal::new(1, 28), Decimal::new(-1, 28), Decimal::new(150, 2), Decimal::new(15, 1), Decimal::ZERO,
                          // wide coefficients that end in zeros (the scale is part of the value of `@`)
                          Decimal::from_i128_with_scale(25000000000000000000, 19), Decimal::from_i128_with_scale(110000000000000000000000000, 26),
                          Decimal::from_i128_with_scale(-7500000000000000000000, 21), Decimal::from_i128_with_scale(30000000000000000000000000000, 28),
                          Decimal::new(i64::MAX, 0), Decimal::new(1, 0), Decimal::new(27, 0), Decimal::new(28, 0), Decimal::new(5, 1)]
                .into_iter().map(Val::D).collect(),
            "cpx" => vec![Complex::new(f64::NAN, 0.0), Complex::new(f64::INFINITY, -0.0), Complex::new(-0.0, -0.0), Complex::new(0.0, 0.0), Complex::new(0.0, 1.0),
                          Complex::new(-1.0, 0.0), Complex::new(1e300, 1e300), Complex::new(5e-324, -5e-324), Complex::new(f64::NEG_INFINITY, f64::NAN),
                          // every sign pattern of a zero component next to a non-zero one (branch-cut side = bit of the zero)
                          Complex::new(-4.0, -0.0), Complex::new(-4.0, 0.0), Complex::new(2.0, -0.0), Complex::new(-0.0, 3.0), Complex::new(0.0, -3.0), Complex::new(-0.0, -3.0),
                          Complex::new(0.0, -0.0), Complex::new(-0.0, 0.0)]
                .into_iter().map(Val::C).collect(),
            _ => vec![Number::Float(f64::NAN), Number::Float(f64::INFINITY), Number::Float(f64::NEG_INFINITY), Number::Float(-0.0), Number::Float(0.0),
                      Number::Integer(i64::MIN), Number::Integer(i64::MAX), Number::Float(3.0), Number::Integer(0), Number::Float(9.3e18), Number::Float(0.5),
                      Number::Integer(20), Number::Integer(21), Number::Float(1e300), Number::Integer(1 << 53), Number::Float(5e-324)]
                .into_iter().map(Val::N).collect(),
        };
        v.extend(extra);
    }
    v
}

/// mirrors ParseFn!Renderable (the trace specification re-lexes every rendering, so a divergence is detected)
pub fn renderable(kinds: &[String]) -> bool {
    for i in 0..kinds.len() {
        if i + 1 < kinds.len() && ((kinds[i] == "num" && kinds[i + 1] == "num") || (kinds[i] == "sup" && kinds[i + 1] == "sup")) { return false; }
        if matches!(kinds[i].as_str(), "f1" | "f2" | "fv" | "fa") && !(i + 1 < kinds.len() && kinds[i + 1] == "lp") { return false; }
    }
    true
}

fn completions(prefix: &[String], kinds_e: &[String]) -> Vec<Vec<String>> {
    let has = |k: &str| kinds_e.iter().any(|x| x == k);
    let last = match prefix.last() { Some(l) => l.as_str(), None => return vec![] };
    let sv = |xs: &[&str]| xs.iter().map(|x| x.to_string()).collect::<Vec<String>>();
    let mut tails: Vec<Vec<String>> = match last {
        "f1" | "fv" | "fa" => vec![sv(&["lp", "num", "rp"])],
        "f2" => vec![sv(&["lp", "num", "comma", "num", "rp"])],
        "lp" | "lf" | "lc" | "comma" => vec![sv(&["num"])],
        "num" | "ans" | "const" | "rp" | "rf" | "rc" | "bang" | "sup" | "deg" | "rad" => vec![sv(&["add", "num"]), vec![]],
        "bad" => vec![],
        _ => vec![sv(&["num"])],        // a binary operator or a sign
    };
    if tails.is_empty() { return vec![]; }
    // close what is open, innermost first
    let mut open: Vec<&str> = Vec::new();
    for k in prefix.iter().map(|k| k.as_str()).chain(tails[0].iter().map(|k| k.as_str())) {
        match k { "lp" => open.push("rp"), "lf" => open.push("rf"), "lc" => open.push("rc"), "rp" | "rf" | "rc" => { open.pop(); } _ => {} }
    }
    let closers: Vec<String> = open.iter().rev().map(|c| c.to_string()).collect();
    let mut out = Vec::new();
    for t in tails.drain(..) {
        if t.is_empty() && closers.is_empty() { continue; }
        if t.iter().chain(closers.iter()).any(|k| !has(k)) { continue; }
        let mut ks = prefix.to_vec();
        ks.extend(t);
        ks.extend(closers.iter().cloned());
        out.push(ks);
    }
    out
}

/// A sequence the parser has already rejected stays rejected whatever follows (ParseFn!Viable is false):
/// extend minimal rejected prefixes by random tokens and require Err.
pub fn replay_reject_suffixes(out: &mut Out, v: &Vocab, e: &str, b: &Beh, pol: &Policy, rng: &mut Rng, n: usize) {
    if b.verdict != "reject" || b.numnum { return; }
    let kinds_e: Vec<String> = v.kinds[e].clone();
    // directed completions: what a reader would type next to make the rejected prefix "look finished" - an argument list after a
    // function name, an operand after an operator or an opening bracket, a further term after an operand - with every open
    // bracket closed.  (`@abs` is rejected at two tokens; a parser that wrongly continues it shows only on `@abs(2)`.)
    for ks in completions(&b.kinds, &kinds_e) {
        if !renderable(&ks) { continue; }
        let r = match render(v, e, &ks, pol) { Some(r) => r, None => continue };
        let ctx = json!({"toks": ks, "verdict": "reject", "prefix": b.kinds, "completion": true});
        checked_call(out, e, &r.text, &default_placeholder(e), Some(&reject_exp()), json!({"kinds": ks, "v": "reject"}), true, &ctx);
    }
    // (a prefix that ends in a function name cannot be rendered by itself - the name needs its bracket - but its completion can)
    if !b.renderable { return; }
    for _ in 0..n {
        let mut ks = b.kinds.clone();
        let extra = 1 + rng.below(3);
        for _ in 0..extra {
            let k = kinds_e[rng.below(kinds_e.len())].clone();
            let is_fn = matches!(k.as_str(), "f1" | "f2" | "fv" | "fa");
            ks.push(k);
            if is_fn { ks.push("lp".into()); }
        }
        if !renderable(&ks) { continue; }
        let r = match render(v, e, &ks, pol) { Some(r) => r, None => continue };
        let ctx = json!({"toks": ks, "verdict": "reject", "prefix": b.kinds});
        let ph = default_placeholder(e);
        let exp = reject_exp();
        checked_call(out, e, &r.text, &ph, Some(&exp), json!({"kinds": ks, "v": "reject"}), true, &ctx);
    }
}

/// Long left-leaning chains of one precedence level (30 to 70 terms, up to 256 characters): `a + b - c + ...` and `a * b / c * ...`
/// over operands whose grouping matters (a value at the edge of the format among small ones).  The tree is the left-leaning one
/// (C04: equal precedence associates to the left); the value is the reference interpreter's on that tree, node by node.
pub fn long_chains(out: &mut Out, e: &str, rng: &mut Rng, n: usize) {
    use crate::render::Asg;
    use crate::tree::T;
    let (big, small): (Vec<&str>, Vec<&str>) = match e {
        "f64" => (vec!["9007199254740992", "10000000000000000", "4503599627370496.5", "18014398509481984"], vec!["1", "0.1", "0.5", "3", "0.3", "7", "2"]),
        "i64" => (vec!["9223372036854775807", "4611686018427387904", "9223372036854775806"], vec!["1", "2", "3", "7", "1", "4"]),
        "dec" => (vec!["7922816251426433759354395033", "3961408125713216879677197516", "792281625142643375935439503", "0.0000000000000000000000000001"], vec!["1", "3", "0.5", "7", "2", "1"]),
        "cpx" => (vec!["9007199254740992", "10000000000000000i", "4503599627370496.5"], vec!["1", "0.1i", "0.5", "3i", "2", "7"]),
        _ => (vec!["9007199254740992", "9223372036854775807", "4611686018427387904", "9007199254740993"], vec!["1", "0.5", "3", "0.1", "2", "7"]),
    };
    // eval_number: two chains of three over Integers only (the variant of a result with a Float operand is left open, and with it
    // the exactness of what follows)
    let ints_only: Vec<&str> = vec!["1", "3", "2", "7", "1", "5"];
    let ph = default_placeholder(e);
    for item in 0..n {
        out.heartbeat(item as u64);
        out.stats.items += 1;
        let additive = item % 4 != 3;
        let terms = 30 + rng.below(41);
        let mut text = String::new();
        let mut asg = Asg::default();
        let mut tree: Option<T> = None;
        let mut kinds: Vec<String> = Vec::new();
        let nbig = 1 + rng.below(3);
        let big_at: Vec<usize> = (0..nbig).map(|_| rng.below(terms)).collect();
        for k in 0..terms {
            let small: &Vec<&str> = if e == "num" && item % 3 != 2 { &ints_only } else { &small };
            let lit = if big_at.contains(&k) { big[rng.below(big.len())] } else { small[rng.below(small.len())] };
            let op = if additive { if rng.below(2) == 0 { "add" } else { "sub" } } else if rng.below(3) == 0 { "div" } else { "mul" };
            if k > 0 { text.push_str(match op { "add" => "+", "sub" => "-", "mul" => "*", _ => "/" }); kinds.push(op.to_string()); }
            if text.chars().count() + lit.len() > 255 { text.pop(); kinds.pop(); break; }
            text.push_str(lit);
            kinds.push("num".into());
            let pos = kinds.len();
            let (body, im) = crate::render::split_lit(lit);
            asg.lits.insert(pos, (body, im));
            tree = Some(match tree { None => T::Num(pos), Some(l) => T::Bin(op.to_string(), Box::new(l), Box::new(T::Num(pos))) });
        }
        let t = tree.unwrap();
        let exp = crate::expect::expected(e, &t, &asg, &ph);
        checked_call(out, e, &text, &ph, Some(&exp), json!({"kinds": kinds, "v": "accept"}), true, &json!({"chain": if additive { "additive" } else { "multiplicative" }, "terms": terms}));
    }
}

/// boundary-value pools named in the statements of C05, C06, C07, C09 (literals are non-negative text;
/// negative operands arrive through `@` and through prefix minus, which the enumerated sequences contain)
pub fn boundary_lits(e: &str) -> Vec<String> {
    let v: Vec<&str> = match e {
        "i64" => vec!["0", "1", "2", "3", "7", "20", "21", "62", "63", "64", "2147483648", "4294967295", "4294967296", "3037000499", "3037000500",
                      "4611686018427387904", "9223372036854775806", "9223372036854775807",
                      // not literals of eval_i64 at all: whatever stands around them, the call must return Err
                      "9223372036854775808", "18446744073709551616", "25000000000000000000", "18446744073709551617", "36893488147419103232",
                      "99999999999999999999", "27670116110564327424", "20000000000000000000000"],
        "num" => vec!["0", "1", "2", "3", "0.5", ".5", "2.5", "20", "21", "63", "4294967296", "3037000500", "9007199254740992", "9007199254740993",
                      "9223372036854775808.", "18446744073709551616.", "9007199254740993.",
                      "4611686018427387904", "9223372036854775807", "9223372036854775806.", "0.1", "1.5"],
        "f64" => vec!["0", "1", "2", "3", "0.5", "0.1", "0.2", "2.5", "9007199254740992", "9007199254740993",
                      // the neighbours of the rounding ties, and odd whole numbers above 2^52 (x + 0.5 is itself rounded there)
                      "0.49999999999999994", "0.5000000000000001", "2.4999999999999996", "4503599627370497", "4503599627370495.5", "4.9406564584124654e-324", "1.7976931348623157e308",
                      "9223372036854775808", "9223372036854774784", "18446744073709551616", "4294967296",
                      "179769313486231570000000000000000000000000000000000000000000000000000000000000000000000000000000000000000000000000000000000000000000000000000000000000000000000000000000000000000000000000000000000000000000000000000000000000000000000000000000000000000000000000000000000000000000000000000000000000000000000",
                      "0.000000000000000000000000000000000000000000000000000000000000000000000000000000000000000000000000000000000000000000000000000000000000000000000000000000000000000000000000000000000000000000000000000000000000000000000000000000000000000000000000000000000000000000000000000000000000000000000000000000000000000000000000000000005",
                      "170", "171", "1.5", "3.5"],
        "dec" => vec!["0", "1", "2", "3", "0.1", "0.2", "1.10", "2.5", "0.5", ".5", ".25", "5.", "79228162514264337593543950335", "7922816251426433759354395033", "0.0000000000000000000000000001",
                      // the integer-type boundaries (a tokenizer or an operation may take a machine-integer detour)
                      "9223372036854775808", "9999999999999999999", "18446744073709551616", "4294967296", "9223372036854775807.5",
                      "39614081257132168796771975168", "1.0000000000000000000000000001", "9999999999999999999999999999", "27", "28", "0.3"],
        _ => vec!["0", "1", "2", "3i", "0.5", "i", "1.5i", "2.5", "10", "0.1"],
    };
    v.into_iter().filter(|s| !s.contains("e-") && !s.contains("e3")).map(String::from).collect()
}

/// all assignments of pool indices to `n` literal positions, capped (beyond the cap: a seeded random sample)
pub fn assignments(n: usize, pool: usize, cap: usize, rng: &mut Rng) -> Vec<Vec<usize>> {
    if n == 0 { return vec![vec![]]; }
    let total = (pool as f64).powi(n as i32);
    if total <= cap as f64 {
        let mut out = Vec::new();
        let mut idx = vec![0usize; n];
        loop {
            out.push(idx.clone());
            let mut k = 0;
            loop {
                if k == n { return out; }
                idx[k] += 1;
                if idx[k] < pool { break; }
                idx[k] = 0;
                k += 1;
            }
        }
    }
    (0..cap).map(|_| (0..n).map(|_| rng.below(pool)).collect()).collect()
}

pub fn claim_of(b: &Beh) -> Value { json!({"kinds": b.kinds, "v": b.verdict}) }

/// Base replay of one behaviour for evaluator e: `nasg` assignments of operands/spellings.
/// Returns the renderings used (for the metamorphic extras).
pub fn replay_base(out: &mut Out, v: &Vocab, e: &str, b: &Beh, pols: &[Policy], phs: &[Val], nontrivial_min_ops: usize) -> Vec<(Rendered, Vec<(Val, Outcome)>)> {
    let mut used = Vec::new();
    if !b.renderable || b.numnum { return used; }
    let has_ans = b.kinds.iter().any(|k| k == "ans");
    let dflt = [default_placeholder(e)];
    let phs: &[Val] = if has_ans { phs } else { &dflt };
    // composites (spec/MCCompose.tla) are many: each takes a rotating window of three placeholders, so that the pool is covered across them
    let window: Vec<Val>;
    let phs: &[Val] = if b.raw.get("comp").is_some() && phs.len() > 3 {
        let k = (out.stats.items as usize) % phs.len();
        window = (0..3).map(|i| phs[(k + i * 5) % phs.len()].clone()).collect();
        &window
    } else { phs };
    for pol in pols {
        let r = match render(v, e, &b.kinds, pol) { Some(r) => r, None => continue };
        // the properties quantify over inputs of at most 256 characters
        if r.text.chars().count() > 256 { continue; }
        let ctx = json!({"toks": b.kinds, "verdict": b.verdict, "tree": b.raw.get("tree").cloned().unwrap_or(Value::Null)});
        let mut outs = Vec::new();
        for ph in phs {
            // composites outside the statement's operations add nothing to this check (C01 executes them all)
            if b.raw.get("comp").is_some() { if let (Some(t), Some(sc)) = (&b.tree, &out.scope) { if !sc.covers(t, &r.asg) { break; } } }
            let exp = match &b.tree {
                Some(t) if out.scope.as_ref().map_or(false, |sc| !sc.covers(t, &r.asg)) =>
                    crate::expect::Exp { res: Err(crate::refsem::Stop::Unspec("OutsideStatementOfProperty")), prec: Default::default(), ops: 0, shape: Some(crate::ast::rust_shape(t, &r.asg)), no_tree: false },
                Some(t) => expected(e, t, &r.asg, ph),
                None => reject_exp(),
            };
            let nontrivial = match &b.tree { Some(t) => t.count_ops() >= nontrivial_min_ops, None => b.kinds.len() >= 2 };
            let o = checked_call(out, e, &r.text, ph, Some(&exp), claim_of(b), nontrivial, &ctx);
            outs.push((ph.clone(), o));
        }
        if outs.is_empty() { continue; }
        if out.stats.samples.len() < 6 && b.kinds.len() >= 3 && (out.stats.items % 97 == 0) {
            out.stats.samples.push(json!({"e": e, "toks": b.kinds, "verdict": b.verdict, "input": r.text, "outcome": outs[0].1.show()}));
        }
        used.push((r, outs));
    }
    used
}

/// Direction A at character level (spec/MCLexer.tla): one behaviour = a character string with the
/// specification's verdict, tokens (with payload) and tree.
pub fn replay_string(out: &mut Out, e: &str, bv: &Value, phs: &[Val], idx: u64) -> (String, Vec<(Val, Outcome)>) {
    replay_string_with(out, e, bv, phs, idx, None)
}

/// the foreign characters that resemble, or are encoded next to, the character standing beside a foreign position
pub fn related_foreign(chars: &[String]) -> Vec<char> {
    let mut v: Vec<char> = Vec::new();
    for (i, c) in chars.iter().enumerate() {
        if c != "OTHER" { continue; }
        for n in [if i > 0 { Some(&chars[i - 1]) } else { None }, chars.get(i + 1)].into_iter().flatten() {
            let rel: &[char] = match n.as_str() {
                x if x.starts_with("SUP") => &['\u{2071}', '\u{2072}', '\u{2073}', '\u{207A}', '\u{207B}', '\u{207F}', '\u{2080}', '\u{2082}'],
                "LFLOOR" | "RFLOOR" | "LCEIL" | "RCEIL" => &['\u{2307}', '\u{230C}', '\u{2320}', '\u{27E6}', '\u{3008}'],
                "DEG" => &['\u{00BA}', '\u{02DA}', '\u{00AA}'],
                "PI_SYM" | "p" | "i" => &['\u{03A0}', '\u{03D6}', '\u{1D70B}'],
                "@" => &['\u{FF20}', '\u{FE6B}'],
                "+" | "-" | "*" | "/" | "(" | ")" | "^" | "%" => &['\u{FF0B}', '\u{2212}', '\u{00D7}', '\u{00F7}', '\u{2215}', '\u{FF08}', '\u{FF09}'],
                x if x.len() == 1 && x.as_bytes()[0].is_ascii_digit() => &['\u{FF11}', '٣', '𝟙', '\u{2080}', '\u{2071}', '\u{012B}', '\u{012A}', '\u{012D}', '\u{015E}', '\u{012E}'],
                _ => &[],
            };
            for r in rel { if !v.contains(r) { v.push(*r); } }
        }
    }
    v
}

/// the text of a character-level behaviour (white space and foreign characters chosen by idx), the assignment its tokens carry, its kinds
pub fn string_parts(bv: &Value, idx: u64, foreign: Option<char>) -> (String, crate::render::Asg, Vec<String>, Vec<String>) {
    use crate::render::Asg;
    use crate::vocab::{concrete, FOREIGN, WHITE_SPACE};
    let chars: Vec<String> = bv["chars"].as_array().unwrap().iter().map(|c| c.as_str().unwrap().to_string()).collect();
    let mut text = String::new();
    for (i, c) in chars.iter().enumerate() {
        match c.as_str() {
            "WS" => text.push(WHITE_SPACE[(idx as usize + i) % 25]),
            "OTHER" => text.push(foreign.unwrap_or(FOREIGN[(idx as usize + i) % FOREIGN.len()])),
            _ => text.push_str(&concrete(c)),
        }
    }
    let toks = bv["toks"].as_array().unwrap();
    let mut asg = Asg::default();
    let mut kinds = Vec::new();
    for (i, t) in toks.iter().enumerate() {
        let p = i + 1;
        let k = t["k"].as_str().unwrap();
        kinds.push(k.to_string());
        let txt: String = t["txt"].as_array().map(|a| a.iter().map(|c| c.as_str().unwrap()).collect::<Vec<_>>().concat()).unwrap_or_default();
        match k {
            "num" => { asg.lits.insert(p, (txt, t["im"].as_bool().unwrap_or(false))); }
            "sup" => { asg.sups.insert(p, txt); }
            "const" => { let f = t["fn"].as_str().unwrap_or(""); asg.consts.insert(p, if f == "E" { "E".into() } else { "PI".into() }); }
            "f1" | "f2" | "fv" | "fa" => { asg.fns.insert(p, t["fn"].as_str().unwrap().to_string()); }
            _ => {}
        }
    }
    (text, asg, kinds, chars)
}

pub fn replay_string_with(out: &mut Out, e: &str, bv: &Value, phs: &[Val], idx: u64, foreign: Option<char>) -> (String, Vec<(Val, Outcome)>) {
    use crate::render::Asg;
    use crate::vocab::{concrete, FOREIGN, WHITE_SPACE};
    let chars: Vec<String> = bv["chars"].as_array().unwrap().iter().map(|c| c.as_str().unwrap().to_string()).collect();
    let mut text = String::new();
    for (i, c) in chars.iter().enumerate() {
        match c.as_str() {
            "WS" => text.push(WHITE_SPACE[(idx as usize + i) % 25]),
            "OTHER" => text.push(foreign.unwrap_or(FOREIGN[(idx as usize + i) % FOREIGN.len()])),
            _ => text.push_str(&concrete(c)),
        }
    }
    let verdict = bv["v"].as_str().unwrap();
    let toks = bv["toks"].as_array().unwrap();
    let mut asg = Asg::default();
    let mut kinds = Vec::new();
    for (i, t) in toks.iter().enumerate() {
        let p = i + 1;
        let k = t["k"].as_str().unwrap();
        kinds.push(k.to_string());
        let txt: String = t["txt"].as_array().map(|a| a.iter().map(|c| c.as_str().unwrap()).collect::<Vec<_>>().concat()).unwrap_or_default();
        match k {
            "num" => { asg.lits.insert(p, (txt, t["im"].as_bool().unwrap_or(false))); }
            "sup" => { asg.sups.insert(p, txt); }
            "const" => { let f = t["fn"].as_str().unwrap_or(""); asg.consts.insert(p, if f == "E" { "E".into() } else { "PI".into() }); }
            "f1" | "f2" | "fv" | "fa" => { asg.fns.insert(p, t["fn"].as_str().unwrap().to_string()); }
            _ => {}
        }
    }
    let has_ans = kinds.iter().any(|k| k == "ans");
    let dflt = [default_placeholder(e)];
    let phs: &[Val] = if has_ans { phs } else { &dflt };
    let ctx = json!({"chars": chars, "verdict": verdict, "rule": bv["rule"], "toks": kinds});
    let mut outs = Vec::new();
    for ph in phs {
        let exp = match verdict {
            "accept" => Some(expected(e, &T::from_json(&bv["tree"]), &asg, ph)),
            "reject" => Some(reject_exp()),
            _ => None,   // unspecified by the properties: the call only has to return
        };
        let nontrivial = chars.len() >= 2;
        let o = checked_call(out, e, &text, ph, exp.as_ref(), json!({"v": verdict}), nontrivial, &ctx);
        outs.push((ph.clone(), o));
    }
    if out.stats.samples.len() < 6 && idx % 1009 == 7 {
        out.stats.samples.push(json!({"e": e, "chars": chars, "verdict": verdict, "input": text}));
    }
    (text, outs)
}
