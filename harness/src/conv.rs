//! C18: Number::from(f64) / Number::from(i64) against the predicate of spec/NumberConv.tla at W = 64:
//! Integer(n) exactly when v is finite, integral and -2^63 <= v < 2^63 (then n = v); otherwise Float with v's bits.
//! C19: literals denote their exact decimal value (correct rounding decided with exact big-integer arithmetic)
//! and printed results read back unchanged.
use crate::call::call;
use crate::engine::{h64, Out, Rng};
use crate::refsem::bignum::BigInt;
use crate::val::{Outcome, Val};
use serde_json::json;
use std::cmp::Ordering;
use string_calculator::Number;

fn check_from_f(out: &mut Out, v: f64) {
    out.stats.calls += 1;
    let got = Number::from(v);
    let integral = v.is_finite() && v.fract() == 0.0 && v >= -9223372036854775808.0 && v < 9223372036854775808.0;
    let ok = match (&got, integral) {
        (Number::Integer(n), true) => (*n as f64) == v && (*n as i128) == (v as i128),
        (Number::Float(x), false) => x.to_bits() == v.to_bits(),
        _ => false,
    };
    let key = h64(&v.to_bits());
    out.stats.distinct.insert(key);
    if v.is_nan() || v.is_infinite() || v.fract() == 0.0 || v.abs() >= 4503599627370496.0 { out.stats.nontrivial.insert(key); }
    if !ok {
        out.finding("conversion", "num", &format!("Number::from({:?}_f64) [bits {:016x}]", v, v.to_bits()), &Val::F(v),
                    if integral { "Integer(n) with n == v" } else { "Float(v), bits unchanged" }, &format!("{:?}", got), json!({"bits": format!("{:016x}", v.to_bits())}));
    }
}

fn check_from_i(out: &mut Out, n: i64) {
    out.stats.calls += 1;
    if Number::from(n) != Number::Integer(n) {
        out.finding("conversion", "num", &format!("Number::from({}_i64)", n), &Val::I(n), "Integer of the same value", &format!("{:?}", Number::from(n)), json!({}));
    }
}

pub fn run_conv(out: &mut Out, seed: u64, random: u64) {
    let mut vals: Vec<f64> = vec![0.0, -0.0, f64::NAN, -f64::NAN, f64::INFINITY, f64::NEG_INFINITY, f64::MAX, f64::MIN, f64::MIN_POSITIVE, 5e-324, -5e-324,
                                  f64::from_bits(0x7ff8000000000001), f64::from_bits(0x7ff0000000000001), f64::from_bits(0xfff8dead0000beef), f64::from_bits(0x000fffffffffffff)];
    // every power of two +- a few ulps, both signs
    for e in -1074..=1023i32 {
        let p = 2f64.powi(e);
        let b = p.to_bits();
        for d in [-2i64, -1, 0, 1, 2] {
            let nb = (b as i64 + d) as u64;
            let x = f64::from_bits(nb);
            if x.is_finite() { vals.push(x); vals.push(-x); }
        }
    }
    // integers and halves around the interesting boundaries
    for c in [0.0f64, 1.0, 4503599627370496.0, 9007199254740992.0, 9223372036854775808.0, 4611686018427387904.0, 18446744073709551616.0, 2147483648.0, 4294967296.0] {
        let b = c.to_bits();
        for d in -12i64..=12 { let x = f64::from_bits((b as i64 + d) as u64); vals.push(x); vals.push(-x); }
        for k in 0..8 { vals.push(c + k as f64 + 0.5); vals.push(-(c + k as f64) - 0.5); vals.push(c + k as f64); }
    }
    for (i, v) in vals.iter().enumerate() { if i % 256 == 0 { out.heartbeat(i as u64); } check_from_f(out, *v); }
    let mut rng = Rng(seed ^ 0xC18);
    for i in 0..random {
        if i % 65536 == 0 { out.heartbeat(vals.len() as u64 + i); }
        let r = rng.next();
        // half uniformly random bit patterns, half random integers-as-doubles and near-integers
        let v = match i % 4 { 0 | 1 => f64::from_bits(r), 2 => ((r >> 1) as i64 >> (r % 64)) as f64, _ => { let x = ((r >> 12) as i64 >> (r % 50)) as f64; f64::from_bits((x.to_bits() as i64 + (r % 5) as i64 - 2) as u64) } };
        check_from_f(out, v);
    }
    for n in [0i64, 1, -1, i64::MAX, i64::MIN, i64::MAX - 1, i64::MIN + 1, 1 << 53, (1 << 53) + 1, -(1 << 53) - 1, 1 << 62] { check_from_i(out, n); }
    for _ in 0..(random / 8) { let n = rng.next() as i64 >> (rng.next() % 64); check_from_i(out, n); }
    // "no conversion changes a numeric value" inside the evaluator too: expressions that are the identity on an Integer, on Integer
    // placeholders that are not doubles (above 2^53) and at the ends of the range - the result must be that very Integer
    let ints: Vec<i64> = vec![(1 << 53) + 1, -(1 << 53) - 1, i64::MAX, i64::MIN + 1, i64::MAX - 1, (1 << 62) + 1, 9007199254740993, 3, -7, 0,
                              4611686018427387905, -4611686018427387905, 1234567890123456789, i64::MIN];
    let idents = ["@", "floor(@)", "ceil(@)", "round(@)", "trunc(@)", "truncate(@)", "⌊@⌋", "⌈@⌉", "(@)", "+@", "@+0", "@-0", "@*1", "@/1", "@^1", "@¹", "max(@)", "min(@)", "max(@,@)", "min(@,@)",
                  "avg(@)", "med(@)", "median(@,@,@)", "mod(@,9223372036854775807)+0*@", "abs(@)*sgn(@)", "-(-@)", "0+@", "1*@", "max(@,-9223372036854775807-1)", "min(@,9223372036854775807)"];
    for n in &ints {
        for x in idents.iter() {
            if *n == i64::MIN && (x.contains("abs") || x.contains("-(-") || x.contains("mod(")) { continue; }      // |MIN| is not an i64: Float by C09
            if x.contains("mod(") && (*n == i64::MAX || *n < 0) { continue; }
            let ph = Val::N(Number::Integer(*n));
            let (o, _) = crate::call::call("num", x, &ph);
            out.stats.calls += 1;
            let key = h64(&("ident", x, *n)); out.stats.distinct.insert(key); out.stats.nontrivial.insert(key);
            let ok = matches!(&o, crate::val::Outcome::Ok(Val::N(Number::Integer(m))) if m == n);
            if !ok { out.finding("conversion", "num", x, &ph, &format!("Integer({}) (the expression is the identity on Integers)", n), &o.show(), json!({})); }
        }
    }
    // exact Integer results at the ends of the range: nothing on the way may pass through a double (a - b is not a + (-b) there)
    for (x, n, want) in [("-1-@", i64::MIN, i64::MAX), ("@-@", i64::MIN, 0), ("-2-@", i64::MIN, i64::MAX - 1), ("@-(-1)", i64::MAX - 1, i64::MAX), ("-1-(@)", i64::MIN, i64::MAX),
                         ("@+1-1", i64::MAX - 1, i64::MAX - 1), ("-@-1", i64::MAX, i64::MIN), ("@*1-@", i64::MIN, 0), ("0-@", i64::MIN + 1, i64::MAX), ("@/1", i64::MIN, i64::MIN),
                         ("@%@", i64::MIN, 0), ("-(@+1)", i64::MIN, i64::MAX), ("abs(@+1)", i64::MIN, i64::MAX), ("@^1", i64::MIN, i64::MIN), ("max(@,-1)-@", i64::MIN, i64::MAX)] {
        let ph = Val::N(Number::Integer(n));
        let (o, _) = crate::call::call("num", x, &ph);
        out.stats.calls += 1;
        let key = h64(&("exactend", x, n)); out.stats.distinct.insert(key); out.stats.nontrivial.insert(key);
        let ok = matches!(&o, crate::val::Outcome::Ok(Val::N(Number::Integer(m))) if *m == want);
        if !ok { out.finding("conversion", "num", x, &ph, &format!("Integer({}) (the exact result fits i64: no operand may be converted on the way)", want), &o.show(), json!({})); }
    }
    // whole-number Floats outside the i64 range stay the Floats they are through every expression that is the identity on them
    // (an exact integer detour - i128 sums, casts - wraps or saturates there)
    for f in [9223372036854775808.0f64, 18446744073709551616.0, -18446744073709551616.0, 1e30, -1e30, 9.3e18, 1.7e38, 3.5e38, -9223372036854777856.0] {
        for x in ["@", "avg(@)", "avg(@,@)", "med(@)", "med(@,@)", "max(@)", "min(@,@)", "floor(@)", "ceil(@)", "round(@)", "trunc(@)", "@+0", "@*1", "@/1", "abs(@)*sgn(@)", "-(-@)", "@^1"] {
            let ph = Val::N(Number::Float(f));
            let (o, _) = crate::call::call("num", x, &ph);
            out.stats.calls += 1;
            let key = h64(&("identf", x, f.to_bits())); out.stats.distinct.insert(key); out.stats.nontrivial.insert(key);
            let ok = matches!(&o, crate::val::Outcome::Ok(Val::N(Number::Float(g))) if *g == f);
            if !ok { out.finding("conversion", "num", x, &ph, &format!("Float({:e}) (the expression is the identity on a whole Float outside the i64 range)", f), &o.show(), json!({})); }
        }
    }
    // an Integer next to a Float: selecting between them (max, min, median of three) must go by their exact numeric values - the
    // Integer is not converted to a double, the Float not cast to an integer (the casts saturate at the ends of the range)
    let big_ints: Vec<i64> = vec![i64::MAX, i64::MIN, i64::MAX - 1, i64::MIN + 1, (1 << 53) + 1, -(1 << 53) - 1, 9007199254740993, 0, -1, 1 << 62];
    let floats: Vec<(f64, &str)> = vec![(9223372036854775808.0, "2^63"), (-9223372036854775808.0, "(0-2^63)"), (9223372036854775808.0 * 2.0, "2^64"), (-18446744073709551616.0, "(0-2^64)"),
                                        (9007199254740992.0, "9007199254740992."), (9007199254740994.0, "9007199254740994."), (-9007199254740994.0, "(-9007199254740994.)"),
                                        (9223372036854774784.0, "9223372036854774784."), (0.5, "0.5"), (-0.5, "(-0.5)"), (1e30, "10^30"), (f64::INFINITY, "(1/0)"), (f64::NEG_INFINITY, "(-1/0)")];
    // exact order of an i64 and a double
    let cmp = |n: i64, f: f64| -> std::cmp::Ordering {
        if f >= 9223372036854775808.0 { return std::cmp::Ordering::Less; }
        if f < -9223372036854775808.0 { return std::cmp::Ordering::Greater; }
        let t = f.trunc();
        match n.cmp(&(t as i64)) { std::cmp::Ordering::Equal => 0.0f64.partial_cmp(&(f - t)).unwrap(), o => o }
    };
    for n in &big_ints {
        for (f, ftext) in &floats {
            let ord = cmp(*n, *f);
            if ord == std::cmp::Ordering::Equal { continue; }
            let ph = Val::N(Number::Integer(*n));
            for (text, want_int) in [(format!("max(@,{})", ftext), ord == std::cmp::Ordering::Greater), (format!("max({},@)", ftext), ord == std::cmp::Ordering::Greater),
                                     (format!("min(@,{})", ftext), ord == std::cmp::Ordering::Less), (format!("min({},@)", ftext), ord == std::cmp::Ordering::Less),
                                     (format!("med(@,{},@)", ftext), true), (format!("med({},@,{})", ftext, ftext), false)] {
                let (o, _) = crate::call::call("num", &text, &ph);
                out.stats.calls += 1;
                let key = h64(&("order", &text, *n)); out.stats.distinct.insert(key); out.stats.nontrivial.insert(key);
                let ok = match &o {
                    crate::val::Outcome::Ok(Val::N(Number::Integer(m))) => want_int && m == n,
                    crate::val::Outcome::Ok(Val::N(Number::Float(g))) => !want_int && g == f,
                    _ => false,
                };
                if !ok { out.finding("conversion", "num", &text, &ph, &format!("{} (the exact order of Integer({}) and Float({:e}))", if want_int { format!("Integer({})", n) } else { format!("Float({:e})", f) }, n, f), &o.show(), json!({})); }
            }
        }
    }
    out.stats.samples.push(json!({"structured_values": vals.len(), "random_bit_patterns": random, "example": format!("{:?} -> {:?}", 9223372036854775808.0f64, Number::from(9223372036854775808.0))}));
}

// ------------------------------------------------------------------------------------------- C19
/// is x the double nearest to the decimal c / 10^s (ties to even)?  decided exactly
pub fn correctly_rounded(c: &BigInt, s: u32, x: f64) -> bool {
    if x.is_nan() { return false; }
    if x.is_infinite() {
        // correct iff the value is >= MAX + half an ulp of MAX = (2^1024 - 2^970)
        let lim = BigInt::pow2(1024).sub(&BigInt::pow2(970)).mul(&BigInt::pow10(s));
        return x > 0.0 && c.cmp(&lim) != Ordering::Less;
    }
    if x < 0.0 || (x == 0.0 && x.is_sign_negative()) { return false; }
    // x = m * 2^e exactly
    let bits = x.to_bits();
    let be = ((bits >> 52) & 0x7ff) as i32;
    let frac = bits & ((1u64 << 52) - 1);
    let (m, e) = if be == 0 { (frac, -1074) } else { (frac | (1u64 << 52), be - 1075) };
    // midpoints towards the neighbours, as integer multiples of 2^q with q = e - 2:
    //   upper: (4m + 2) * 2^q;  lower: (4m - 2) * 2^q, or (4m - 1) * 2^q just above a power of two (the spacing halves below)
    let q = e - 2;
    let k = if q < 0 { (-q) as u32 } else { 0 };
    let up = if q > 0 { q as u32 } else { 0 };
    let v = c.mul(&BigInt::pow2(k));                         // V * 10^s * 2^k
    let unit = BigInt::pow10(s).mul(&BigInt::pow2(up));      // 2^q * 10^s * 2^k
    let boundary = m == (1u64 << 52) && be > 1;
    let a_lo: i128 = if boundary { 4 * m as i128 - 1 } else { 4 * m as i128 - 2 };
    let hi = BigInt::from_i128(4 * m as i128 + 2).mul(&unit);
    let even = m % 2 == 0;
    let ch = v.cmp(&hi);
    let below_hi = ch == Ordering::Less || (ch == Ordering::Equal && even);
    if m == 0 { return below_hi; }
    let lo = BigInt::from_i128(a_lo).mul(&unit);
    let cl = v.cmp(&lo);
    let above_lo = cl == Ordering::Greater || (cl == Ordering::Equal && even);
    above_lo && below_hi
}

fn lit_parts(t: &str) -> (BigInt, u32) {
    let (ip, fp) = match t.find('.') { Some(i) => (&t[..i], &t[i + 1..]), None => (t, "") };
    let digits = format!("{}{}", if ip.is_empty() { "0" } else { ip }, fp);
    (BigInt::parse(&digits).unwrap(), fp.len() as u32)
}

fn literal_check(out: &mut Out, t: &str) {
    let (c, s) = lit_parts(t);
    let key = h64(&t);
    let ctx = json!({"literal": t});
    // eval_f64 and eval_complex: correctly rounded double
    for (e, text) in [("f64", t.to_string()), ("cpx", t.to_string()), ("cpx", format!("{}i", t))] {
        let ph = crate::call::default_placeholder(e);
        let (o, _) = call(e, &text, &ph);
        out.stats.calls += 1;
        out.stats.distinct.insert(h64(&(e, &text)));
        if t.len() >= 2 { out.stats.nontrivial.insert(h64(&(e, &text))); }
        let x = match &o { Outcome::Ok(Val::F(x)) => Some(*x), Outcome::Ok(Val::C(z)) => if text.ends_with('i') { if z.re == 0.0 { Some(z.im) } else { None } } else if z.im == 0.0 { Some(z.re) } else { None }, _ => None };
        match x {
            Some(x) if correctly_rounded(&c, s, x) => {}
            _ => out.finding("literal", e, &text, &ph, "the correctly rounded double of the literal", &o.show(), ctx.clone()),
        }
    }
    let has_point = t.contains('.');
    let intval = if !has_point { c.to_i128() } else { None };
    // eval_i64: exactly that integer when it fits (point: not a literal of eval_i64)
    if !has_point {
        let (o, _) = call("i64", t, &Val::I(0));
        out.stats.calls += 1;
        let fits = intval.map(|v| v <= i64::MAX as i128).unwrap_or(false);
        let ok = match (&o, fits) { (Outcome::Ok(Val::I(v)), true) => Some(*v as i128) == intval, (Outcome::Err(_), false) => true, _ => false };
        if !ok { out.finding("literal", "i64", t, &Val::I(0), if fits { "exactly that integer" } else { "Err (does not fit i64)" }, &o.show(), ctx.clone()); }
    }
    // eval_number: Integer when it fits i64 and has no point, Float (correctly rounded) when it has a point
    {
        let ph = Val::N(Number::Integer(0));
        let (o, _) = call("num", t, &ph);
        out.stats.calls += 1;
        let fits = intval.map(|v| v <= i64::MAX as i128).unwrap_or(false);
        let ok = match &o {
            Outcome::Ok(Val::N(Number::Integer(v))) => !has_point && fits && Some(*v as i128) == intval,
            Outcome::Ok(Val::N(Number::Float(x))) => (has_point || !fits) && correctly_rounded(&c, s, *x),
            Outcome::Err(_) => !has_point && !fits,          // an over-long integer literal: the properties do not fix Float vs Err
            _ => false,
        };
        if !ok { out.finding("literal", "num", t, &ph, if has_point { "Float(correctly rounded)" } else { "Integer(exact) when it fits i64" }, &o.show(), ctx.clone()); }
    }
    // eval_decimal: exactly that decimal with at most 28 significant digits (and at most 28 fractional digits)
    {
        let sig = c.to_string().trim_start_matches('0').len();
        let ph = Val::D(rust_decimal::Decimal::ZERO);
        let (o, _) = call("dec", t, &ph);
        out.stats.calls += 1;
        if sig <= 28 && s <= 28 {
            let ok = match &o { Outcome::Ok(Val::D(d)) => BigInt::from_i128(d.mantissa()).mul(&BigInt::pow10(s)) == c.mul(&BigInt::pow10(d.scale())), _ => false };
            if !ok { out.finding("literal", "dec", t, &ph, "exactly that decimal", &o.show(), ctx.clone()); }
        } else if !o.returned() {
            out.finding("panic", "dec", t, &ph, "Ok or Err", &o.show(), ctx.clone());
        }
    }
    let _ = key;
}

fn roundtrip(out: &mut Out, e: &str, v: &Val) {
    let text = match v {
        Val::F(x) => format!("{}", x), Val::I(i) => format!("{}", i), Val::D(d) => format!("{}", d),
        Val::C(c) => format!("{}", c), Val::N(_) => return,
    };
    let ph = crate::call::default_placeholder(e);
    let (o, _) = call(e, &text, &ph);
    out.stats.calls += 1;
    let key = h64(&(e, &text));
    out.stats.distinct.insert(key);
    out.stats.nontrivial.insert(key);
    let same = match (&o, v) {
        (Outcome::Ok(Val::F(y)), Val::F(x)) => y == x || (x.is_nan() && y.is_nan()),
        (Outcome::Ok(Val::I(y)), Val::I(x)) => y == x,
        (Outcome::Ok(Val::D(y)), Val::D(x)) => y == x,
        (Outcome::Ok(Val::C(y)), Val::C(x)) => y.re == x.re && y.im == x.im,
        _ => false,
    };
    if !same { out.finding("roundtrip", e, &text, &ph, &format!("the value that was printed: {}", v.show()), &o.show(), json!({"printed": text})); }
}

pub fn run_literals(out: &mut Out, seed: u64, random: u64, maxlen: usize) {
    let mut rng = Rng(seed ^ 0xC19);
    // (1) exhaustive short literals over {0,1,5,9,.}
    let alpha = ['0', '1', '5', '9', '.'];
    let mut lits: Vec<String> = Vec::new();
    for n in 1..=maxlen {
        let mut idx = vec![0usize; n];
        'outer: loop {
            let s: String = idx.iter().map(|i| alpha[*i]).collect();
            let pts = s.matches('.').count();
            if pts <= 1 && s != "." && s.chars().any(|c| c.is_ascii_digit()) { lits.push(s); }
            let mut k = 0;
            loop { if k == n { break 'outer; } idx[k] += 1; if idx[k] < alpha.len() { break; } idx[k] = 0; k += 1; }
        }
    }
    // (2) structured: digit runs up to 400 digits, every position of the point, leading / trailing zeros, halfway cases
    for d in [15usize, 16, 17, 18, 19, 20, 21, 22, 28, 29, 30, 40, 100, 308, 309, 310, 324, 400] {
        for lead in ["1", "9", "17976931348623157", "8", "4", "2"] {
            let mut s = String::from(lead);
            while s.len() < d { s.push(char::from(b'0' + (rng.below(10) as u8))); }
            s.truncate(d);
            lits.push(s.clone());
            for p in [0usize, 1, d / 2, d - 1, d] { let mut t = s.clone(); t.insert(p.min(d), '.'); if t != "." { lits.push(t); } }
            lits.push(format!("000{}", s)); lits.push(format!("0.{}{}", "0".repeat(d.min(330)), s)); lits.push(format!("{}000.000", s));
        }
    }
    for s in ["9007199254740993", "9007199254740992.5", "9007199254740993.0000000000000000000000001", "4503599627370496.5", "4503599627370497.5", "0.1", "0.2", "0.3",
              "1.7976931348623157", "179769313486231580793728971405303415079934132710037826936173778980444968292764750946649017977587207096330286416692887910946555547851940402630657488671505820681908902000708383676273854845817711531764475730270069855571366959622842914819860834936475292719074168444365510704342711559699508093042880177904174497791.9",
              "179769313486231580793728971405303415079934132710037826936173778980444968292764750946649017977587207096330286416692887910946555547851940402630657488671505820681908902000708383676273854845817711531764475730270069855571366959622842914819860834936475292719074168444365510704342711559699508093042880177904174497792",
              "9223372036854775807", "9223372036854775808", "9223372036854775806", "79228162514264337593543950335", "7.9228162514264337593543950335", "0.0000000000000000000000000001", "1.10", "2.4703282292062327e-324"] {
        if !s.contains('e') { lits.push(s.to_string()); }
    }
    // the halfway point between 0 and the smallest subnormal, and just above / below it
    let tiny = format!("0.{}24703282292062327208051355972538862959610012425", "0".repeat(323));
    lits.push(tiny.clone()); lits.push(format!("{}1", tiny)); lits.push(format!("0.{}2470328229206232720", "0".repeat(323)));
    for (i, l) in lits.iter().enumerate() { out.heartbeat(i as u64); out.stats.items += 1; literal_check(out, l); }
    // (3) print / re-read round trip over boundary pools and random bit patterns
    let mut fs: Vec<f64> = vec![0.0, 1.0, 0.1, 0.2, 0.30000000000000004, f64::MAX, f64::MIN_POSITIVE, 5e-324, 2.2250738585072009e-308, 1e22, 1e23, 9007199254740993.0, 1e-7, 123456789.125, 1e300, 1e-300, 4.35, 2.675];
    for e in [-1074i32, -1073, -1022, -1021, -500, -1, 0, 1, 52, 53, 63, 64, 500, 1023] { let p = 2f64.powi(e); for d in [-1i64, 0, 1] { fs.push(f64::from_bits((p.to_bits() as i64 + d) as u64)); } }
    for _ in 0..random { let x = f64::from_bits(rng.next() & 0x7fff_ffff_ffff_ffff); if x.is_finite() { fs.push(x); } }
    let fs: Vec<f64> = fs.into_iter().filter(|x| x.is_finite()).collect();
    for (i, x) in fs.iter().enumerate() {
        if i % 512 == 0 { out.heartbeat((lits.len() + i) as u64); }
        roundtrip(out, "f64", &Val::F(*x));
        if i % 3 == 0 && *x != 0.0 { roundtrip(out, "f64", &Val::F(-*x)); }
        if i % 4 == 0 { let y = fs[(i * 7 + 3) % fs.len()]; roundtrip(out, "cpx", &Val::C(num_complex::Complex::new(*x, y))); }
    }
    let mut is: Vec<i64> = vec![0, 1, 9, 10, i64::MAX, i64::MAX - 1, 1 << 53, 4294967296, 999999999999999999];
    for _ in 0..random { is.push((rng.next() >> 1) as i64 >> (rng.next() % 63)); }
    for i in is { roundtrip(out, "i64", &Val::I(i)); if i != 0 { roundtrip(out, "i64", &Val::I(-i)); } }
    use rust_decimal::Decimal;
    let mut ds: Vec<Decimal> = vec![Decimal::ZERO, Decimal::new(1, 0), Decimal::new(15, 1), Decimal::new(150, 2), Decimal::MAX, Decimal::new(1, 28), Decimal::new(123456789, 9), Decimal::new(i64::MAX, 5)];
    for _ in 0..random { let m = (rng.next() >> 1) as i64 >> (rng.next() % 60); let sc = rng.below(29) as u32; let hi = rng.below(3) == 0;
                         let d = if hi { Decimal::from_i128_with_scale((m as i128) * 4294967291, sc) } else { Decimal::new(m, sc) }; ds.push(d); }
    for d in ds { roundtrip(out, "dec", &Val::D(d)); if !d.is_zero() { roundtrip(out, "dec", &Val::D(-d)); } }
    out.stats.samples.push(json!({"literals": lits.len(), "example_literal": lits[lits.len() / 2], "roundtrip_doubles": fs.len()}));
}
