//! C05: the IEEE special-value algebra of spec/FloatSem.tla against the host arithmetic (which validates the
//! tables) and against eval_f64 (which must return exactly the host result, never Err).
use crate::call::call;
use crate::engine::{h64, Out};
use crate::val::{Outcome, Val};
use serde_json::{json, Value};

fn class_of(x: f64) -> &'static str {
    if x.is_nan() { "NaN" } else if x == f64::INFINITY { "PInf" } else if x == f64::NEG_INFINITY { "NInf" }
    else if x == 0.0 { if x.is_sign_negative() { "NZero" } else { "PZero" } } else if x < 0.0 { "NegFin" } else { "PosFin" }
}

/// representatives of a class: (expression text, value)
fn reps(c: &str) -> Vec<(String, f64)> {
    let big = "1".to_string() + &"0".repeat(308);
    let tiny = format!("0.{}1", "0".repeat(320));
    match c {
        "NaN" => vec![("(0/0)".into(), f64::NAN)],
        "PInf" => vec![("(1/0)".into(), f64::INFINITY)],
        "NInf" => vec![("(-1/0)".into(), f64::NEG_INFINITY)],
        "PZero" => vec![("0".into(), 0.0), ("(1-1)".into(), 0.0)],
        "NZero" => vec![("(-0)".into(), -0.0)],
        "PosFin" => vec![("2".into(), 2.0), ("0.5".into(), 0.5), (big.clone(), 1e308), (tiny.clone(), tiny.parse().unwrap()), ("3".into(), 3.0), ("9007199254740993".into(), 9007199254740992.0)],
        _ => vec![("(-2)".into(), -2.0), ("(-0.5)".into(), -0.5), (format!("(-{})", big), -1e308), (format!("(-{})", tiny), -tiny.parse::<f64>().unwrap()), ("(-3)".into(), -3.0)],
    }
}

pub fn replay(out: &mut Out, bv: &Value) {
    let (op, a, b) = (bv["op"].as_str().unwrap(), bv["a"].as_str().unwrap(), bv["b"].as_str().unwrap());
    let allowed: Vec<&str> = bv["r"].as_array().unwrap().iter().map(|x| x.as_str().unwrap()).collect();
    let sym = match op { "add" => "+", "sub" => "-", "mul" => "*", "div" => "/", _ => "%" };
    for (ta, va) in reps(a) {
        for (tb, vb) in reps(b) {
            let host = match op { "add" => va + vb, "sub" => va - vb, "mul" => va * vb, "div" => va / vb, _ => va % vb };
            out.stats.calls += 1;
            let text = format!("{}{}{}", ta, sym, tb);
            let key = h64(&text);
            out.stats.distinct.insert(key);
            out.stats.nontrivial.insert(key);
            let ctx = json!({"op": op, "a": a, "b": b, "allowed": allowed});
            if !allowed.contains(&class_of(host)) {
                // the table of the specification would be wrong about IEEE arithmetic: a defect of the machinery, reported as such
                out.finding("spec_table", "f64", &text, &Val::F(0.0), &format!("a result of class {:?}", allowed), &format!("host arithmetic gives {:?} ({})", host, class_of(host)), ctx.clone());
            }
            let (o, _) = call("f64", &text, &Val::F(0.0));
            let ok = match &o { Outcome::Ok(Val::F(x)) => (x.is_nan() && host.is_nan()) || x.to_bits() == host.to_bits(), _ => false };
            if !ok { out.finding(if o.is_err() { "err_on_defined" } else { "value" }, "f64", &text, &Val::F(0.0), &format!("{:?} (bits {:016x}), class {}", host, host.to_bits(), class_of(host)), &o.show(), ctx); }
        }
    }
}
