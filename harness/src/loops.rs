//! C02: every looping construct (spec/Loops.tla: factorial, Euclid, ilog, Halley) x extreme arguments x
//! nesting, for every evaluator that offers it.  The call must return within the step budget
//! (4096 + 256*len, enforced by the hook) - a budget overrun, a hang or a panic is a finding.
use crate::call::default_placeholder;
use crate::engine::{checked_call, Out};
use crate::vocab::Vocab;
use serde_json::json;

fn pool(e: &str) -> Vec<&'static str> {
    match e {
        "f64" | "num" => vec!["0", "1", "2", "3", "20", "21", "22", "170", "171", "172", "1000", "1000000000000000000", "10^300", "1/0", "-1/0", "0/0",
                              "-1", "-2", "-0.5", "0.5", "1.2", "1.4", "1.0001", "1.5", "0.999", "-0.3678794411714423", "-0.36", "1rad", "100", "14",
                              "9007199254740993", "2.5", "170.5", "171.5", "1.4446678610097661", "1.45", "0.0000001", "10^18", "2^1023*1.99"],
        "i64" => vec!["0", "1", "2", "20", "21", "22", "63", "64", "1000000000000000000", "9223372036854775807", "-9223372036854775807-1", "-1", "5", "8", "13",
                      "34", "6557470319842", "10610209857723", "4660046610375530309", "7540113804746346429", "-7540113804746346429", "3037000500"],
        _ => vec!["0", "1", "2", "27", "28", "29", "100", "1.2", "1.4", "1.0001", "0.5", "-1", "-0.5", "79228162514264337593543950335",
                  "0.0000000000000000000000000001", "1000000", "14", "50", "1.3", "2.5", "26.5", "-0.36", "-0.3678794411", "1.4446678610097661", "1.45", "10^27", "3"],
    }
}

pub fn run(out: &mut Out, v: &Vocab, e: &str, shard: u64, nshards: u64, start: u64) {
    let p = pool(e);
    let has = |f: &str| v.keywords.iter().any(|k| k.func == f && k.evals.iter().any(|x| x == e));
    let mut inputs: Vec<String> = Vec::new();
    if v.has_kind(e, "bang") {
        for a in &p { inputs.push(format!("({})!", a)); inputs.push(format!("({})!!", a)); inputs.push(format!("-({})!!!", a)); inputs.push(format!("2^({})!", a)); }
        for a in &p { for b in p.iter().take(12) { inputs.push(format!("({})!+({})!", a, b)); } }
    }
    if has("ILog") {
        for a in &p { for b in &p { inputs.push(format!("ilog({},{})", a, b)); } }
        for a in p.iter().take(16) { for b in p.iter().take(16) { inputs.push(format!("ilog(ilog({},{}),{})", a, b, b)); inputs.push(format!("ilog(({})!,{})", a, b)); } }
    }
    if has("LambertW") {
        for a in &p { inputs.push(format!("w({})", a)); inputs.push(format!("lambert_w(w({}))", a)); inputs.push(format!("w(({})!)", a)); inputs.push(format!("w(-({}))", a)); }
    }
    if has("Gcd") {
        for a in &p { for b in &p { inputs.push(format!("gcd({},{})", a, b)); inputs.push(format!("lcm({},{})", a, b)); } }
        for a in p.iter().take(10) { for b in p.iter().take(10) { for c in p.iter().take(10) { inputs.push(format!("gcd({},{},{})", a, b, c)); } } }
    }
    // long chains of the cheapest looping construct, up to the 256-character limit
    if v.has_kind(e, "bang") {
        for n in [10usize, 40, 120, 250] { inputs.push(format!("3{}", "!".repeat(n))); inputs.push(format!("({}3{})", "(".repeat(n / 3), ")!".repeat(n / 3))); }
        let mut s = String::from("3!");
        while s.len() < 250 { s.push_str("+3!"); }
        inputs.push(s);
    }
    let ph = default_placeholder(e);
    for (i, inp) in inputs.iter().enumerate() {
        let i = i as u64;
        if i % nshards != shard || i < start { continue; }
        out.heartbeat(i);
        out.stats.items += 1;
        if inp.chars().count() > 256 { continue; }
        let ctx = json!({"construct": "loop", "input": inp});
        let o = checked_call(out, e, inp, &ph, None, json!({"v": "unclaimed"}), true, &ctx);
        if out.stats.samples.len() < 6 && i % 211 == 5 { out.stats.samples.push(json!({"e": e, "input": inp, "outcome": o.show()})); }
    }
}
