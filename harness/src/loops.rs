//! C02: every looping construct (spec/Loops.tla: factorial, Euclid, ilog, Halley) x extreme arguments x
//! nesting, for every evaluator that offers it.  The call must return within the step budget
//! (4096 + 256*len, enforced by the hook) - a budget overrun, a hang or a panic is a finding.
use crate::call::default_placeholder;
use crate::engine::{checked_call, Out};
use crate::vocab::Vocab;
use serde_json::json;

fn pool(e: &str) -> Vec<&'static str> {
    match e {
        "f64" | "num" => vec!["0", "1", "2", "3", "20", "21", "22", "170", "171", "172", "1000", "1000000000000000000", "10^300", "1/0", "-1/0", "0/0",
                              "-1", "-2", "-0.5", "0.5", "1.2", "1.4", "1.0001", "1.5", "0.999", "-0.3678794411714423", "-0.36", "1rad", "100", "14",
                              "9007199254740993", "2.5", "170.5", "171.5", "1.4446678610097661", "1.45", "0.0000001", "10^18", "2^1023*1.99"],
        "i64" => vec!["0", "1", "2", "20", "21", "22", "63", "64", "1000000000000000000", "9223372036854775807", "-9223372036854775807-1", "-1", "5", "8", "13",
                      "34", "6557470319842", "10610209857723", "4660046610375530309", "7540113804746346429", "-7540113804746346429", "3037000500",
                      // perfect squares and their neighbours above 2^53 (integer refinements of a double estimate settle or oscillate there)
                      "4611686018427387903", "4611686018427387904", "4611686018427387905", "9223372030926249000", "9223372030926249001", "9223372030926249002",
                      "9007199326062755", "9007199326062756", "9007199254740993", "1000000000000000000", "999999999999999999", "81", "80"],
        _ => vec!["0", "1", "2", "27", "28", "29", "100", "1.2", "1.4", "1.0001", "0.5", "-1", "-0.5", "79228162514264337593543950335",
                  "0.0000000000000000000000000001", "1000000", "14", "50", "1.3", "2.5", "26.5", "-0.36", "-0.3678794411", "1.4446678610097661", "1.45", "10^27", "3"],
    }
}

pub fn run(out: &mut Out, v: &Vocab, e: &str, shard: u64, nshards: u64, start: u64) {
    let p = pool(e);
    let has = |f: &str| v.keywords.iter().any(|k| k.func == f && k.evals.iter().any(|x| x == e));
    let mut inputs: Vec<String> = Vec::new();
    if v.has_kind(e, "bang") {
        for a in &p { inputs.push(format!("({})!", a)); inputs.push(format!("({})!!", a)); inputs.push(format!("-({})!!!", a)); inputs.push(format!("2^({})!", a)); }
        for a in &p { for b in p.iter().take(12) { inputs.push(format!("({})!+({})!", a, b)); } }
    }
    if has("ILog") {
        for a in &p { for b in &p { inputs.push(format!("ilog({},{})", a, b)); } }
        for a in p.iter().take(16) { for b in p.iter().take(16) { inputs.push(format!("ilog(ilog({},{}),{})", a, b, b)); inputs.push(format!("ilog(({})!,{})", a, b)); } }
    }
    if has("LambertW") {
        for a in &p { inputs.push(format!("w({})", a)); inputs.push(format!("lambert_w(w({}))", a)); inputs.push(format!("w(({})!)", a)); inputs.push(format!("w(-({}))", a)); }
    }
    // the real-valued functions of eval_i64 (and everywhere else) on the whole pool: each must return within the budget
    for kw in v.all_keywords_of(e) {
        if kw.cls == "f1" { for a in &p { inputs.push(format!("{}({})", kw.name, a)); } }
        if kw.cls == "f2" { for a in p.iter().step_by(3) { for b in p.iter().step_by(4) { inputs.push(format!("{}({},{})", kw.name, a, b)); } } }
    }
    if has("Gcd") {
        for a in &p { for b in &p { inputs.push(format!("gcd({},{})", a, b)); inputs.push(format!("lcm({},{})", a, b)); } }
        for a in p.iter().take(10) { for b in p.iter().take(10) { for c in p.iter().take(10) { inputs.push(format!("gcd({},{},{})", a, b, c)); } } }
    }
    // long chains of the cheapest looping construct, up to the 256-character limit
    if v.has_kind(e, "bang") {
        for n in [10usize, 40, 120, 250] { inputs.push(format!("3{}", "!".repeat(n))); inputs.push(format!("({}3{})", "(".repeat(n / 3), ")!".repeat(n / 3))); }
        let mut s = String::from("3!");
        while s.len() < 250 { s.push_str("+3!"); }
        inputs.push(s);
    }
    let ph = default_placeholder(e);
    for (i, inp) in inputs.iter().enumerate() {
        let i = i as u64;
        if i % nshards != shard || i < start { continue; }
        out.heartbeat(i);
        out.stats.items += 1;
        if inp.chars().count() > 256 { continue; }
        let ctx = json!({"construct": "loop", "input": inp});
        let o = checked_call(out, e, inp, &ph, None, json!({"v": "unclaimed"}), true, &ctx);
        if out.stats.samples.len() < 6 && i % 211 == 5 { out.stats.samples.push(json!({"e": e, "input": inp, "outcome": o.show()})); }
    }
}

/// C01 / C02 at the 256-character limit: the deepest recursion and the longest iterations an input of that length can ask for -
/// nested brackets, chains of prefix signs and postfix operators, nested calls of every function class, long operator chains of
/// every level, long argument lists, long literals and superscript runs, juxtaposition chains.  The call must return (no stack
/// overflow, no panic) within the step budget; the recorded step counts are validated against the specification (CalcTrace).
pub fn deep_shapes(out: &mut Out, v: &Vocab, e: &str, thread_stack: usize, cur_file: Option<String>, start: u64) {
    let mut inputs: Vec<String> = Vec::new();
    let lit = if e == "cpx" { "2i" } else { "2" };
    let has_kind = |k: &str| v.has_kind(e, k);
    for k in [1usize, 8, 40, 100, 127] {
        inputs.push(format!("{}{}{}", "(".repeat(k), lit, ")".repeat(k)));
        if has_kind("lf") { inputs.push(format!("{}{}{}", "⌊".repeat(k), lit, "⌋".repeat(k))); inputs.push(format!("{}{}{}", "⌈(".repeat(k / 2 + 1), lit, ")⌉".repeat(k / 2 + 1))); }
        inputs.push(format!("{}{}", "-".repeat(2 * k), lit));
        inputs.push(format!("{}{}", "+-".repeat(k), lit));
        if has_kind("bang") { inputs.push(format!("1{}", "!".repeat(2 * k))); }
        if has_kind("deg") { inputs.push(format!("{}{}", lit, "°".repeat(2 * k))); inputs.push(format!("{}{}", lit, "rad".repeat(k.min(84)))); }
        inputs.push(format!("{}{}", lit, "²".repeat(1)));
        inputs.push(format!("{}{}", lit, "¹".repeat((2 * k).min(250))));                  // one superscript run of many digits
        inputs.push(format!("{}{}", "1".repeat((2 * k).min(255)), ""));                   // one long literal
        if e != "i64" { inputs.push(format!("0.{}", "3".repeat((2 * k).min(253)))); }
    }
    for op in ["+", "-", "*", "/", "^", "%", "&", "|", "<<", ">>"] {
        let kind = match op { "+" => "add", "-" => "sub", "*" => "mul", "/" => "div", "^" => "pow", "%" => "mod", "&" => "and", "|" => "or", "<<" => "shl", _ => "shr" };
        if !has_kind(kind) { continue; }
        for unit in ["1", lit] {
            let n = (255 - unit.len()) / (op.len() + unit.len());
            let mut s = String::from(unit);
            for _ in 0..n { s.push_str(op); s.push_str(unit); }
            inputs.push(s);
        }
        // right-nested through brackets: a op (a op (a op ...))
        let n = 60;
        inputs.push(format!("{}1{}", format!("1{}(", op).repeat(n), ")".repeat(n)));
    }
    for kw in v.all_keywords_of(e) {
        let name = &kw.name;
        let per = name.len() + 2;
        let k = (250 / per).min(80);
        match kw.cls.as_str() {
            "f1" => { inputs.push(format!("{}{}{}", format!("{}(", name).repeat(k), lit, ")".repeat(k))); }
            "f2" => { let k = (240 / (per + 2)).min(60); inputs.push(format!("{}{}{}", format!("{}(", name).repeat(k), lit, ",2)".repeat(k)));
                      inputs.push(format!("{}{}{}", format!("{}(2,", name).repeat(k), lit, ")".repeat(k))); }
            _ => { let k = (240 / (per + 2)).min(60);
                   inputs.push(format!("{}{}{}", format!("{}(", name).repeat(k), lit, ",1)".repeat(k)));
                   inputs.push(format!("{}{}{}", format!("{}(1,", name).repeat(k), lit, ")".repeat(k)));
                   inputs.push(format!("{}({})", name, vec!["7"; (250 - per) / 2].join(","))); }
        }
    }
    // juxtaposition chains and mixed towers
    inputs.push(format!("2{}", "(2)".repeat(84)));
    inputs.push(format!("{}2{}", "2(".repeat(84), ")".repeat(84)));
    if has_kind("bang") { inputs.push(format!("{}3{}", "(".repeat(60), ")!".repeat(60))); inputs.push(format!("2{}", "!(2)".repeat(50))); }
    inputs.push(format!("{}@{}", "-(".repeat(84), ")".repeat(84)));
    inputs.push(format!("@{}", "*@".repeat(127)));
    let ph = default_placeholder(e);
    for (i, inp) in inputs.iter().enumerate() {
        if (i as u64) < start { continue; }                  // resumed after an item that killed the process
        out.heartbeat(i as u64);
        out.stats.items += 1;
        if inp.chars().count() > 256 { continue; }
        let ctx = json!({"construct": "deep shape", "chars": inp.chars().count(), "thread_stack": thread_stack});
        if thread_stack > 0 {
            // on a thread of its own with the given stack (std's default for spawned threads is 2 MiB): a stack overflow aborts this
            // process; the supervisor attributes the death to this item and resumes after it
            if let Some(f) = &cur_file { let _ = std::fs::write(f, inp); }          // so that an abort can be attributed to this input
            let (e2, inp2, ph2) = (e.to_string(), inp.clone(), ph.clone());
            let h = std::thread::Builder::new().stack_size(thread_stack).spawn(move || crate::call::call(&e2, &inp2, &ph2)).expect("spawn");
            let (o, t) = h.join().expect("the call catches panics");
            out.stats.calls += 1;
            out.note_ticks(inp, &t);
            let key = crate::engine::h64(&(e, inp, "stack"));
            out.stats.distinct.insert(key); out.stats.nontrivial.insert(key);
            match &o {
                crate::val::Outcome::Panic(m) => out.finding("panic", e, inp, &ph, "Ok or Err", &format!("PANIC({})", m), ctx.clone()),
                crate::val::Outcome::Budget => out.finding("budget", e, inp, &ph, "steps <= 4096+256*len", "step budget exceeded", ctx.clone()),
                _ => {}
            }
            continue;
        }
        let o = checked_call(out, e, inp, &ph, None, json!({"v": "unclaimed"}), true, &ctx);
        if out.stats.samples.len() < 6 && i % 37 == 5 { out.stats.samples.push(json!({"e": e, "input": inp, "outcome": o.show()})); }
    }
}
