//! Calls into the public API of string_calculator, under catch_unwind, with the step hook armed.
use crate::val::{Outcome, Val};
use std::panic::{catch_unwind, AssertUnwindSafe};
use string_calculator::verif_hooks as hooks;

#[derive(Clone, Copy, Debug, Default)]
pub struct Ticks {
    pub lex: u64,
    pub parse: u64,
    pub eval: u64,
    pub loops: u64,
}
impl Ticks {
    pub fn total(&self) -> u64 { self.lex + self.parse + self.eval + self.loops }
}

/// the bound of property C02 for an input of `len` characters
pub fn step_bound(len: usize) -> u64 { 4096 + 256 * len as u64 }

thread_local! { static IN_CALL: std::cell::Cell<bool> = std::cell::Cell::new(false); }

/// parser events (hook): recorded for every call when switched on; the events of the last call of this thread are kept here
pub static RECORD_EVENTS: std::sync::atomic::AtomicBool = std::sync::atomic::AtomicBool::new(false);
thread_local! { pub static LAST_EVENTS: std::cell::RefCell<Vec<String>> = std::cell::RefCell::new(Vec::new()); }
pub fn last_events() -> Vec<String> { LAST_EVENTS.with(|e| e.borrow().clone()) }
thread_local! { pub static LAST_TREE: std::cell::RefCell<Option<String>> = const { std::cell::RefCell::new(None) }; }
/// the Debug form of the tree the parser returned in the call just made on this thread (None: the parser returned no tree)
pub fn last_tree() -> Option<String> { LAST_TREE.with(|t| t.borrow().clone()) }

/// panics inside the code under test are data (caught and recorded); panics of the harness itself are printed
pub fn install_quiet_panic_hook() {
    let default = std::panic::take_hook();
    std::panic::set_hook(Box::new(move |info| {
        if !IN_CALL.with(|c| c.get()) { default(info); }
    }));
}

pub fn default_placeholder(e: &str) -> Val {
    match e {
        "f64" => Val::F(0.0),
        "i64" => Val::I(0),
        "dec" => Val::D(rust_decimal::Decimal::ZERO),
        "cpx" => Val::C(num_complex::Complex::new(0.0, 0.0)),
        _ => Val::N(string_calculator::Number::Integer(0)),
    }
}

/// One call of eval_<e>(expr, ph). The hook budget is the C02 bound plus one.
pub fn call(e: &str, expr: &str, ph: &Val) -> (Outcome, Ticks) {
    let len = expr.chars().count();
    let s = expr.to_string();
    hooks::arm(step_bound(len) + 1);
    let rec = RECORD_EVENTS.load(std::sync::atomic::Ordering::Relaxed);
    if rec { hooks::record_events(true); }
    hooks::record_tree(true);
    IN_CALL.with(|c| c.set(true));
    let r = catch_unwind(AssertUnwindSafe(|| -> Result<Val, String> {
        match (e, ph) {
            ("f64", Val::F(p)) => string_calculator::eval_f64(s, *p).map(Val::F).map_err(|e| e.to_string()),
            ("i64", Val::I(p)) => string_calculator::eval_i64(s, *p).map(Val::I).map_err(|e| e.to_string()),
            ("dec", Val::D(p)) => string_calculator::eval_decimal(s, *p).map(Val::D).map_err(|e| e.to_string()),
            ("cpx", Val::C(p)) => string_calculator::eval_complex(s, *p).map(Val::C).map_err(|e| e.to_string()),
            ("num", Val::N(p)) => string_calculator::eval_number(s, p.clone()).map(Val::N).map_err(|e| e.to_string()),
            _ => panic!("harness: evaluator/placeholder mismatch {} {:?}", e, ph),
        }
    }));
    IN_CALL.with(|c| c.set(false));
    if rec { let ev = hooks::take_events(); hooks::record_events(false); LAST_EVENTS.with(|e| *e.borrow_mut() = ev); }
    let tree = hooks::take_tree();
    hooks::record_tree(false);
    LAST_TREE.with(|t| *t.borrow_mut() = tree);
    let c = hooks::read();
    hooks::reset();
    let t = Ticks { lex: c.lex, parse: c.parse, eval: c.eval, loops: c.loops };
    let o = match r {
        Ok(Ok(v)) => Outcome::Ok(v),
        Ok(Err(m)) => Outcome::Err(m),
        Err(p) => {
            let msg = if let Some(s) = p.downcast_ref::<&str>() { s.to_string() }
                      else if let Some(s) = p.downcast_ref::<String>() { s.clone() }
                      else { "non-string panic payload".to_string() };
            if msg.contains(hooks::BUDGET_EXCEEDED) { Outcome::Budget } else { Outcome::Panic(msg) }
        }
    };
    (o, t)
}
