//! eval_number (C09, C10, C11): Integer stays exact, falls back to the double operation only
//! when it must; any Float operand means the IEEE double operation (numeric value only: the
//! statement does not fix the Integer/Float variant there).  Parametric in W (spec/NumSem.tla).
use super::f64sem::{agg_f64, factorial_f64, fn1_f64, fn2_f64, TOL};
use super::i64sem::{fact_chk, max_exp, max_int, min_int, pow_chk};
use super::{Flags, Sem, Stop, R};

#[derive(Clone, Copy, Debug, PartialEq)]
pub enum NV {
    I(i128),
    F(f64),
}
impl NV {
    pub fn as_f64(&self) -> f64 { match self { NV::I(i) => *i as f64, NV::F(x) => *x } }
}

/// a value whose variant may be open: one or two alternatives with the same numeric value
#[derive(Clone, Debug, PartialEq)]
pub struct NAlt(pub Vec<NV>);

pub struct NumSem {
    pub w: u32,
    pub ph: NV,
    pub flags: Flags,
}

fn fits(w: u32, x: i128) -> bool { x >= min_int(w) && x <= max_int(w) }

/// exact numeric equality of two values (Integer vs Float compared exactly)
pub fn num_eq(a: &NV, b: &NV) -> bool {
    match (a, b) {
        (NV::I(x), NV::I(y)) => x == y,
        (NV::F(x), NV::F(y)) => (x.is_nan() && y.is_nan()) || x == y,
        (NV::I(i), NV::F(x)) | (NV::F(x), NV::I(i)) => x.is_finite() && x.fract() == 0.0 && x.abs() < 1.7e38 && (*x as i128) == *i,
    }
}
/// exact comparison Integer/Float
fn num_lt(a: &NV, b: &NV) -> bool {
    match (a, b) {
        (NV::I(x), NV::I(y)) => x < y,
        (NV::F(x), NV::F(y)) => x < y,
        (NV::I(i), NV::F(x)) => if x.is_infinite() { *x > 0.0 } else { let fl = x.floor(); let fi = fl as i128; *i < fi || (*i == fi && *x > fl) },
        (NV::F(x), NV::I(i)) => if x.is_infinite() { *x < 0.0 } else { let fl = x.floor(); let fi = fl as i128; fi < *i },
    }
}

/// a double with an integral value: the code may hold it as Integer or as Float
fn either(w: u32, x: f64) -> NAlt {
    if x.is_finite() && x.fract() == 0.0 && x.abs() < 1.7e38 && fits(w, x as i128) {
        NAlt(vec![NV::F(x), NV::I(x as i128)])
    } else { NAlt(vec![NV::F(x)]) }
}

impl NumSem {
    pub fn new(w: u32, ph: NV) -> Self { NumSem { w, ph, flags: Flags::default() } }

    fn un1(&self, op: &str, a: NV) -> R<NAlt> {
        let w = self.w;
        match op { "floor" | "ceil" | "trunc" => super::f64sem::at_discontinuity(&self.flags, a.as_f64(), "int")?,
                   "round" => super::f64sem::at_discontinuity(&self.flags, a.as_f64(), "half")?,
                   "sgn" => super::f64sem::at_discontinuity(&self.flags, a.as_f64(), "zero")?, _ => {} }
        let one = |v: NV| Ok(NAlt(vec![v]));
        match (op, a) {
            ("neg", NV::I(x)) => one(if fits(w, -x) { NV::I(-x) } else { NV::F(-(x as f64)) }),
            ("neg", NV::F(x)) => Ok(either(w, -x)),
            ("abs", NV::I(x)) => one(if fits(w, x.abs()) { NV::I(x.abs()) } else { NV::F((x as f64).abs()) }),
            ("abs", NV::F(x)) => Ok(either(w, x.abs())),
            ("sgn", NV::I(x)) => one(NV::I(x.signum())),
            ("sgn", NV::F(x)) => { if x.is_nan() { return Err(Stop::Unspec("SignOfNaN")); } Ok(either(w, if x > 0.0 { 1.0 } else if x < 0.0 { -1.0 } else { 0.0 })) }
            ("floor", NV::I(x)) | ("ceil", NV::I(x)) | ("round", NV::I(x)) | ("trunc", NV::I(x)) => one(NV::I(x)),
            ("floor", NV::F(x)) => Ok(either(w, x.floor())),
            ("ceil", NV::F(x)) => Ok(either(w, x.ceil())),
            ("round", NV::F(x)) => Ok(either(w, x.round())),
            ("trunc", NV::F(x)) => Ok(either(w, x.trunc())),
            ("fact", NV::I(n)) => {
                if n < 0 { return Err(Stop::Unspec("FactorialAtPole")); }
                match fact_chk(w, n) {
                    Ok(v) => one(NV::I(v)),
                    Err(_) => { if w < 64 { return Err(Stop::Unspec("FactorialFallbackAtSmallW")); }
                                let v = factorial_f64(n as f64, &self.flags)?; self.flags.inexact(TOL); Ok(either(w, v)) }
                }
            }
            ("fact", NV::F(x)) => { let v = factorial_f64(x, &self.flags)?; Ok(either(w, v)) }
            ("deg", v) => { self.flags.inexact(TOL); Ok(either(w, super::f64sem::near_overflow(v.as_f64() * (std::f64::consts::PI / 180.0))?)) }
            ("rad", v) => { self.flags.inexact(TOL); Ok(either(w, super::f64sem::near_overflow(v.as_f64() * (180.0 / std::f64::consts::PI))?)) }
            _ => Err(Stop::Unspec("UnknownUnary")),
        }
    }

    fn bin1(&self, op: &str, a: NV, b: NV) -> R<NAlt> {
        let w = self.w;
        let one = |v: NV| Ok(NAlt(vec![v]));
        if let (NV::I(x), NV::I(y)) = (a, b) {
            let fb = |v: f64| one(NV::F(v));
            return match op {
                "add" => if fits(w, x + y) { one(NV::I(x + y)) } else { fb(x as f64 + y as f64) },
                "sub" => if fits(w, x - y) { one(NV::I(x - y)) } else { fb(x as f64 - y as f64) },
                "mul" => if fits(w, x * y) { one(NV::I(x * y)) } else { fb(x as f64 * y as f64) },
                "div" => if y != 0 && x % y == 0 && fits(w, x / y) { one(NV::I(x / y)) } else { fb(x as f64 / y as f64) },
                "mod" => if y != 0 { one(NV::I(x % y)) } else { fb((x as f64) % (y as f64)) },
                "pow" => {
                    if y < 0 { return Err(Stop::Unspec("NegativeIntegerExponent")); }
                    // an exponent beyond 0..4294967295: the Float obtained from the operands' double values (C09), whatever its variant;
                    // at the small word sizes of the TLC vectors the fallback is not modelled
                    if y > max_exp(w) { if w < 64 { return Err(Stop::Unspec("PowExponentOutOfRange")); } return Ok(either(w, (x as f64).powf(y as f64))); }
                    match pow_chk(w, x, y) { Ok(v) => one(NV::I(v)), Err(_) => fb((x as f64).powf(y as f64)) }
                }
                _ => Err(Stop::Unspec("UnknownBinary")),
            };
        }
        let (x, y) = (a.as_f64(), b.as_f64());
        if op == "add" || op == "sub" { super::f64sem::ill_conditioned(&self.flags, x, y, if op == "add" { x + y } else { x - y })?; }
        if op == "mod" && self.flags.tol.get() > 0.0 { return Err(Stop::Unspec("RemainderOfInexactOperand")); }
        if op == "pow" { super::f64sem::amplifies(&self.flags, y)?; super::f64sem::neg_base_inexact(&self.flags, x)?; }
        let v = match op {
            "add" => x + y, "sub" => x - y, "mul" => x * y, "div" => x / y, "mod" => x % y, "pow" => x.powf(y),
            _ => return Err(Stop::Unspec("UnknownBinary")),
        };
        if op == "div" { super::f64sem::free_zero(&self.flags, &[y], v, false)?; }
        if op == "mul" || op == "div" { super::f64sem::subnormal_after_inexact(&self.flags, x, y, v)?; }
        if op == "pow" { super::f64sem::free_zero(&self.flags, &[x], v, false)?; }
        Ok(either(w, v))
    }

    /// apply `f` to every combination of alternatives; the results must agree numerically
    fn combine(&self, alts: &[NAlt], f: &dyn Fn(&[NV]) -> R<NAlt>) -> R<NAlt> {
        // a zero that may be Integer(0) or Float(+-0) (floor(-0.0), ceil(-0.5), 0.0*-1 ...): its sign is not determined
        if alts.iter().any(|a| a.0.len() > 1 && a.0.iter().all(|v| v.as_f64() == 0.0)) { self.flags.zero_sign_free.set(true); }
        let mut idx = vec![0usize; alts.len()];
        let mut results: Vec<NV> = Vec::new();
        loop {
            let pick: Vec<NV> = idx.iter().enumerate().map(|(i, j)| alts[i].0[*j]).collect();
            let r = f(&pick)?;
            for v in r.0 { if !results.contains(&v) { results.push(v); } }
            // next combination
            let mut k = 0;
            loop {
                if k == idx.len() { 
                    // done
                    let first = results[0];
                    if results.iter().all(|v| num_eq(v, &first)) {
                        // drop a -0.0/0 clash conservatively
                        return Ok(NAlt(results));
                    }
                    return Err(Stop::Unspec("VariantDependentResult"));
                }
                idx[k] += 1;
                if idx[k] < alts[k].0.len() { break; }
                idx[k] = 0;
                k += 1;
            }
        }
    }
}

impl Sem for NumSem {
    type V = NAlt;
    fn flags(&self) -> &Flags { &self.flags }
    fn lit(&self, text: &str, _imag: bool) -> R<NAlt> {
        if text.contains('.') {
            let t = if text.starts_with('.') { format!("0{}", text) } else { text.to_string() };
            return t.parse::<f64>().map(|x| NAlt(vec![NV::F(x)])).map_err(|_| Stop::Err("malformed literal"));
        }
        let t = text.trim_start_matches('0');
        if t.len() > 38 { return Err(Stop::Unspec("OverlongLiteral")); }
        let v: i128 = if t.is_empty() { 0 } else { t.parse::<i128>().map_err(|_| Stop::Err("malformed literal"))? };
        if fits(self.w, v) { Ok(NAlt(vec![NV::I(v)])) } else { Err(Stop::Unspec("OverlongLiteral")) }
    }
    fn ans(&self) -> NAlt { NAlt(vec![self.ph]) }
    fn konst(&self, name: &str) -> R<NAlt> { Ok(NAlt(vec![NV::F(if name == "PI" { std::f64::consts::PI } else { std::f64::consts::E })])) }
    fn zero(&self) -> NAlt { NAlt(vec![NV::F(0.0), NV::I(0)]) }
    fn un(&self, op: &str, a: NAlt) -> R<NAlt> {
        self.combine(&[a], &|p| self.un1(op, p[0]))
    }
    fn bin(&self, op: &str, a: NAlt, b: NAlt) -> R<NAlt> {
        self.combine(&[a, b], &|p| self.bin1(op, p[0], p[1]))
    }
    fn sup(&self, base: NAlt, digits: &str) -> R<NAlt> {
        let t = digits.trim_start_matches('0');
        if t.len() > 38 { return Err(Stop::Unspec("OverlongLiteral")); }
        let n: i128 = if t.is_empty() { 0 } else { t.parse::<i128>().map_err(|_| Stop::Err("malformed superscript"))? };
        if !fits(self.w, n) { return Err(Stop::Unspec("OverlongLiteral")); }
        self.bin("pow", base, NAlt(vec![NV::I(n)]))
    }
    fn call(&self, func: &str, args: Vec<NAlt>) -> R<NAlt> {
        let w = self.w;
        match func {
            "Abs" => self.un("abs", args[0].clone()),
            "Sign" => self.un("sgn", args[0].clone()),
            "Floor" => self.un("floor", args[0].clone()),
            "Ceil" => self.un("ceil", args[0].clone()),
            "Round" => self.un("round", args[0].clone()),
            "Truncate" => self.un("trunc", args[0].clone()),
            "Mod" => self.bin("mod", args[0].clone(), args[1].clone()),
            "Pow" => self.bin("pow", args[0].clone(), args[1].clone()),
            "Min" | "Max" => {
                // numeric extremum by exact comparison; alternatives have equal numeric value, use the first
                let vs: Vec<NV> = args.iter().map(|a| a.0[0]).collect();
                if vs.iter().any(|v| matches!(v, NV::F(x) if x.is_nan())) { return Err(Stop::Unspec("NaNInAggregate")); }
                let mut best = vs[0];
                for v in &vs[1..] {
                    if func == "Min" { if num_lt(v, &best) { best = *v; } } else if num_lt(&best, v) { best = *v; }
                }
                // every argument numerically equal to the extremum is an admissible representative
                let mut out: Vec<NV> = Vec::new();
                for a in &args { for v in &a.0 { if num_eq(v, &best) && !out.contains(v) { out.push(*v); } } }
                if out.iter().any(|v| matches!(v, NV::F(x) if *x == 0.0)) || out.iter().any(|v| matches!(v, NV::I(0))) { self.flags.zero_sign_free.set(true); }
                Ok(NAlt(out))
            }
            "Avg" | "Med" => {
                let vs: Vec<NV> = args.iter().map(|a| a.0[0]).collect();
                if func == "Med" && vs.len() % 2 == 1 {
                    if vs.iter().any(|v| matches!(v, NV::F(x) if x.is_nan())) { return Err(Stop::Unspec("NaNInAggregate")); }
                    let mut s = vs.clone();
                    s.sort_by(|a, b| if num_lt(a, b) { std::cmp::Ordering::Less } else if num_lt(b, a) { std::cmp::Ordering::Greater } else { std::cmp::Ordering::Equal });
                    let m = s[s.len() / 2];
                    let mut out: Vec<NV> = Vec::new();
                    for a in &args { for v in &a.0 { if num_eq(v, &m) && !out.contains(v) { out.push(*v); } } }
                    return Ok(NAlt(out));
                }
                // the mean of Integers is exact when it is an Integer (Aggregates!Agg: rat = DSum / Len with denominator 1)
                if func == "Avg" && vs.iter().all(|v| matches!(v, NV::I(_))) {
                    let sum: i128 = vs.iter().map(|v| match v { NV::I(i) => *i, NV::F(_) => 0 }).sum();
                    let n = vs.len() as i128;
                    if n > 0 && sum % n == 0 && fits(w, sum / n) { return Ok(NAlt(vec![NV::I(sum / n)])); }
                }
                // means: exact when every value is a small integer or dyadic, else tolerance
                let big = vs.iter().any(|v| match v { NV::I(i) => i.abs() > (1i128 << 52), NV::F(_) => false });
                if big {
                    // exact rational mean of integers when all are Integer: compare with tolerance on the double
                    self.flags.inexact(1e-12);
                }
                let fs: Vec<f64> = vs.iter().map(|v| v.as_f64()).collect();
                let r = agg_f64(func, &fs, &self.flags)?;
                Ok(either(w, r))
            }
            "Atan2" | "Log" | "Root" | "ILog" => {
                let r = fn2_f64(func, args[0].0[0].as_f64(), args[1].0[0].as_f64(), &self.flags)?;
                Ok(either(w, r))
            }
            _ => {
                let r = fn1_f64(func, args[0].0[0].as_f64(), &self.flags)?;
                Ok(either(w, r))
            }
        }
    }
}
