//! eval_f64: IEEE-754 double arithmetic at every node (C05), functions by their mathematical
//! meaning (C10), aggregates (C11).
use super::special::{gamma, ilog_iter, lambert_w};
use super::{Flags, Sem, Stop, R};

pub const TOL: f64 = 1e-9;

/// once an inexact (tolerance-checked) function has been applied, a sum that cancels amplifies its
/// error without bound: such results are outside what the tolerance can decide
pub fn ill_conditioned(fl: &Flags, a: f64, b: f64, r: f64) -> R<()> {
    if fl.scope_only.get() { return Ok(()); }
    // cancellation may be spread over several sums (60.29 - 63 + e): compare with the largest inexact magnitude seen on the way
    if fl.tol.get() > 0.0 {
        let m = fl.max_inexact.get().max(a.abs()).max(b.abs());
        if a.abs().max(b.abs()).is_finite() { fl.max_inexact.set(m); }
        if r.is_finite() && r.abs() < 1e-3 * m { return Err(Stop::Unspec("CancellationAfterInexactOperation")); }
    }
    if fl.tol.get() > 0.0 && r.is_finite() && r.abs() < 1e-3 * a.abs().max(b.abs()) { Err(Stop::Unspec("CancellationAfterInexactOperation")) } else { Ok(()) }
}

/// a discontinuous function applied to an operand that is only known within a tolerance cannot be
/// decided when the operand lies at the discontinuity
pub fn at_discontinuity(fl: &Flags, x: f64, kind: &str) -> R<()> {
    if fl.tol.get() == 0.0 || !x.is_finite() || fl.scope_only.get() { return Ok(()); }
    let eps = 1e-6 * (1.0 + x.abs());
    let near_int = (x - x.round()).abs() < eps;
    let near_half = ((x - 0.5) - (x - 0.5).round()).abs() < eps;
    let hit = match kind { "int" => near_int, "half" => near_half, "zero" => x.abs() < eps, _ => false };
    if hit { Err(Stop::Unspec("DiscontinuityAfterInexactOperation")) } else { Ok(()) }
}

/// functions that amplify the relative error of an inexact operand by its magnitude (exp, powers with
/// large exponents, circular functions of large arguments): outside what a fixed tolerance can decide
pub fn amplifies(fl: &Flags, magnitude: f64) -> R<()> {
    if fl.scope_only.get() { return Ok(()); }
    if fl.tol.get() > 0.0 && !(magnitude.abs() <= 1e2) { Err(Stop::Unspec("ErrorAmplificationAfterInexactOperation")) } else { Ok(()) }
}

/// a power with a negative base is defined only for an integral exponent: when the exponent comes out of an inexact operation
/// (x rad °, which is not exactly x) whether it is integral cannot be decided within a tolerance
pub fn neg_base_inexact(fl: &Flags, base: f64) -> R<()> {
    if fl.tol.get() > 0.0 && !fl.scope_only.get() && base < 0.0 { Err(Stop::Unspec("NegativeBaseAfterInexactOperation")) } else { Ok(()) }
}

/// an inexact (tolerance-checked) result at the edge of the double range: one side may be inf, the other just below MAX
pub fn near_overflow(v: f64) -> R<f64> {
    if v.is_finite() && v.abs() > 1e300 { Err(Stop::Unspec("InexactNearOverflow")) } else { Ok(v) }
}

pub struct F64Sem {
    pub ph: f64,
    pub flags: Flags,
}
impl F64Sem {
    pub fn new(ph: f64) -> Self { F64Sem { ph, flags: Flags::default() } }
}

pub fn factorial_f64(x: f64, fl: &Flags) -> R<f64> {
    if x.is_nan() { return Err(Stop::Unspec("FactorialOfNaN")); }
    at_discontinuity(fl, x, "int")?;
    // next to a pole (a negative integer) Gamma amplifies the error of its argument - and of pi x in the reflection formula - by the
    // reciprocal of the distance
    if x < 0.0 && !fl.scope_only.get() {
        let dist = (x - x.round()).abs();
        // (relative band of 4e-6 |x|: the reflection formula rounds pi x, an error of |x| eps / dist in the result)
        if dist > 0.0 && (dist < 1e-7 || dist < 4e-6 * x.abs() || (fl.tol.get() > 0.0 && dist < 0.25)) { return Err(Stop::Unspec("FactorialNearPole")); }
    }
    // Gamma amplifies the relative error of its argument by about x ln x
    if fl.tol.get() > 0.0 && !fl.scope_only.get() && !(x.abs() <= 30.0) { return Err(Stop::Unspec("ErrorAmplificationAfterInexactOperation")); }
    if x >= 0.0 && x.fract() == 0.0 {
        if x > 170.0 { return Ok(f64::INFINITY); }
        let n = x as u64;
        let mut r = 1.0f64;
        for i in 2..=n { r *= i as f64; }
        if n > 22 { fl.inexact(TOL); }
        Ok(r)
    } else if x < 0.0 && x.fract() == 0.0 {
        Err(Stop::Unspec("FactorialAtPole"))
    } else if x.abs() <= 150.0 {
        fl.inexact(TOL);
        Ok(gamma(x + 1.0))
    } else {
        Err(Stop::Unspec("GammaBeyond150"))
    }
}

/// a zero whose sign the statements leave open (sgn(+-0), the mean / extremum / median of zeros) must not decide a result:
/// 1/+0 and 1/-0, atan2(+0,-1) and atan2(-0,-1) differ.  Such a use is outside what is asserted.
pub fn free_zero(fl: &Flags, operands: &[f64], r: f64, sign_sensitive: bool) -> R<()> {
    if fl.zero_sign_free.get() && !fl.scope_only.get() && operands.iter().any(|x| *x == 0.0) && (r.is_infinite() || (sign_sensitive && r != 0.0)) {
        return Err(Stop::Unspec("SignOfFreeZeroObserved"));
    }
    Ok(())
}

/// a product or quotient in the subnormal range is rounded to a grid as coarse as the value itself: an operand that is only known
/// to 1e-9 (an earlier tolerance-checked operation) then decides between neighbouring results (0.5 deg rad * 5e-324 is 0 or 5e-324)
pub fn subnormal_after_inexact(fl: &Flags, a: f64, b: f64, r: f64) -> R<()> {
    if fl.tol.get() > 0.0 && !fl.scope_only.get() && a != 0.0 && b != 0.0 && r.is_finite() && r.abs() < f64::MIN_POSITIVE * 1e10 {
        return Err(Stop::Unspec("InexactOperandIntoSubnormalRange"));
    }
    Ok(())
}

pub fn sgn_f64(x: f64, fl: &Flags) -> R<f64> {
    if x.is_nan() { return Err(Stop::Unspec("SignOfNaN")); }
    if x == 0.0 { fl.zero_sign_free.set(true); return Ok(0.0); }
    Ok(if x > 0.0 { 1.0 } else { -1.0 })
}

pub fn lambert_f64(x: f64, fl: &Flags) -> R<f64> {
    let em1 = (-1.0f64).exp();
    if x.is_nan() || x == f64::INFINITY { return Err(Stop::Unspec("LambertWNonFinite")); }
    if x < -em1 { return Err(Stop::Unspec("LambertWBelowDomain")); }
    if x < -em1 + 1e-3 { return Err(Stop::Unspec("LambertWNearBranchPoint")); }
    fl.inexact(TOL);
    Ok(lambert_w(x).unwrap())
}

/// no property states the value of ilog (C02 only requires that it returns)
pub fn ilog_f64(_n: f64, _b: f64) -> R<f64> { Err(Stop::Unspec("ILogValue")) }
#[allow(dead_code)]
pub fn ilog_f64_by_definition(n: f64, b: f64) -> R<f64> {
    if n.is_finite() && b.is_finite() && n.fract() == 0.0 && b.fract() == 0.0 && b >= 2.0 && n >= 0.0 && n < 9.0e15 && b < 9.0e15 {
        Ok(ilog_iter(n as u128, b as u128) as f64)
    } else if n <= 1.0 {
        Ok(0.0)
    } else {
        Err(Stop::Unspec("ILogOutsideIntegerDomain"))
    }
}

/// aggregates over doubles; NaN arguments are outside the statement ("finite arguments")
pub fn agg_f64(func: &str, a: &[f64], fl: &Flags) -> R<f64> {
    if a.iter().any(|x| x.is_nan()) { return Err(Stop::Unspec("NaNInAggregate")); }
    match func {
        "Min" => Ok(a.iter().cloned().fold(f64::INFINITY, f64::min)).and_then(|m| { if m == 0.0 { fl.zero_sign_free.set(true); } Ok(m) }),
        "Max" => Ok(a.iter().cloned().fold(f64::NEG_INFINITY, f64::max)).and_then(|m| { if m == 0.0 { fl.zero_sign_free.set(true); } Ok(m) }),
        "Avg" => {
            if a.iter().any(|x| x.is_infinite()) { return Err(Stop::Unspec("InfInAggregate")); }
            // exact when the partial sums are exact; otherwise order-dependent in the last bits
            let s: f64 = a.iter().sum();
            let exact = a.iter().all(|x| x.fract() == 0.0 && x.abs() < 1e12) ;
            if !exact { fl.inexact(1e-12); }
            let m = s / a.len() as f64;
            if m == 0.0 { fl.zero_sign_free.set(true); }
            Ok(m)
        }
        "Med" => {
            let mut v = a.to_vec();
            v.sort_by(|x, y| x.partial_cmp(y).unwrap());
            let n = v.len();
            if n % 2 == 1 { let m = v[n / 2]; if m == 0.0 { fl.zero_sign_free.set(true); } Ok(m) } else {
                if v[n / 2].is_infinite() || v[n / 2 - 1].is_infinite() { return Err(Stop::Unspec("InfInAggregate")); }
                let m = (v[n / 2 - 1] + v[n / 2]) / 2.0; if m == 0.0 { fl.zero_sign_free.set(true); } Ok(m)
            }
        }
        _ => Err(Stop::Unspec("UnknownAggregate")),
    }
}

/// one-argument functions shared by f64 / number (value semantics on doubles)
pub fn fn1_f64(func: &str, x: f64, fl: &Flags) -> R<f64> {
    let t = |v: f64| -> R<f64> { fl.inexact(TOL); near_overflow(v) };
    if matches!(func, "Exp" | "Exp2" | "Sin" | "Cos" | "Tan" | "Sinh" | "Cosh") { amplifies(fl, x)?; }
    match func { "Floor" | "Ceil" | "Truncate" => at_discontinuity(fl, x, "int")?, "Round" => at_discontinuity(fl, x, "half")?, "Sign" => at_discontinuity(fl, x, "zero")?, _ => {} }
    match func {
        "Abs" => Ok(x.abs()),
        "Floor" => Ok(x.floor()),
        "Ceil" => Ok(x.ceil()),
        "Truncate" => Ok(x.trunc()),
        "Round" => Ok(x.round()),
        "Sqrt" => Ok(x.sqrt()),
        "Sign" => sgn_f64(x, fl),
        "Sin" => t(x.sin()), "Cos" => t(x.cos()), "Tan" => t(x.tan()),
        "Sinh" => t(x.sinh()), "Cosh" => t(x.cosh()), "Tanh" => t(x.tanh()),
        "Asin" => t(x.asin()), "Acos" => t(x.acos()), "Atan" => t(x.atan()),
        "Arsinh" => t(x.asinh()), "Arcosh" => t(x.acosh()), "Artanh" => t(x.atanh()),
        "Exp" => t(x.exp()), "Exp2" => t(x.exp2()),
        "Ln" => t(x.ln()), "Lb" => t(x.log2()),
        "LambertW" => lambert_f64(x, fl),
        _ => Err(Stop::Unspec("UnknownFunction")),
    }
}

pub fn fn2_f64(func: &str, a: f64, b: f64, fl: &Flags) -> R<f64> {
    let t = |v: f64| -> R<f64> { fl.inexact(TOL); near_overflow(v) };
    if func == "Pow" || func == "Root" { amplifies(fl, if func == "Pow" { b } else { 1.0 / a })?; }
    match func {
        "Mod" => { if fl.tol.get() > 0.0 && !fl.scope_only.get() { return Err(Stop::Unspec("RemainderOfInexactOperand")); } Ok(a % b) }
        "Pow" => { neg_base_inexact(fl, a)?; if a.fract() == 0.0 && b.fract() == 0.0 && b < 0.0 { fl.int_negpow.set(true); } Ok(a.powf(b)) }
        "Atan2" => t(a.atan2(b)),
        "Log" => t(a.ln() / b.ln()),
        "Root" => t(b.powf(1.0 / a)),
        "ILog" => ilog_f64(a, b),
        _ => Err(Stop::Unspec("UnknownFunction")),
    }
}

impl Sem for F64Sem {
    type V = f64;
    fn flags(&self) -> &Flags { &self.flags }
    fn lit(&self, text: &str, _imag: bool) -> R<f64> {
        let t = if text.starts_with('.') { format!("0{}", text) } else { text.to_string() };
        t.parse::<f64>().map_err(|_| Stop::Err("malformed literal"))
    }
    fn ans(&self) -> f64 { self.ph }
    fn observe(&self, v: &f64) {
        let fl = &self.flags;
        if !v.is_finite() { fl.saw_nonfinite.set(true); } else if v.abs() > fl.max_abs.get() { fl.max_abs.set(v.abs()); }
        if *v == 0.0 && v.is_sign_negative() { fl.saw_negzero.set(true); }
    }
    fn konst(&self, name: &str) -> R<f64> { Ok(if name == "PI" { std::f64::consts::PI } else { std::f64::consts::E }) }
    fn zero(&self) -> f64 { 0.0 }
    fn un(&self, op: &str, a: f64) -> R<f64> {
        match op {
            "neg" => Ok(-a),
            "fact" => factorial_f64(a, &self.flags),
            // (a scope evaluation predicts the code's own intermediate values: it multiplies by the factors the parsers write down)
            "deg" if self.flags.scope_only.get() => Ok(a * 0.017453292519943295),
            "rad" if self.flags.scope_only.get() => Ok(a * 57.2957795131),
            "deg" => { self.flags.inexact(TOL); near_overflow(a * (std::f64::consts::PI / 180.0)) }
            "rad" => { self.flags.inexact(TOL); near_overflow(a * (180.0 / std::f64::consts::PI)) }
            "floor" => { at_discontinuity(&self.flags, a, "int")?; Ok(a.floor()) }
            "ceil" => { at_discontinuity(&self.flags, a, "int")?; Ok(a.ceil()) }
            _ => Err(Stop::Unspec("UnknownUnary")),
        }
    }
    fn bin(&self, op: &str, a: f64, b: f64) -> R<f64> {
        match op {
            "add" | "sub" => { let r = if op == "add" { a + b } else { a - b }; ill_conditioned(&self.flags, a, b, r)?; Ok(r) }
            "mul" => { subnormal_after_inexact(&self.flags, a, b, a * b)?; Ok(a * b) }
            "div" => { free_zero(&self.flags, &[b], a / b, false)?; subnormal_after_inexact(&self.flags, a, b, a / b)?; Ok(a / b) }
            "mod" => { if self.flags.tol.get() > 0.0 && !self.flags.scope_only.get() { return Err(Stop::Unspec("RemainderOfInexactOperand")); } Ok(a % b) }
            "pow" => { amplifies(&self.flags, b)?; neg_base_inexact(&self.flags, a)?; if a.fract() == 0.0 && b.fract() == 0.0 && b < 0.0 { self.flags.int_negpow.set(true); } free_zero(&self.flags, &[a], a.powf(b), false)?; Ok(a.powf(b)) }
            _ => Err(Stop::Unspec("UnknownBinary")),
        }
    }
    fn sup(&self, base: f64, digits: &str) -> R<f64> {
        let n = digits.parse::<f64>().map_err(|_| Stop::Err("malformed superscript"))?;
        amplifies(&self.flags, n)?;
        free_zero(&self.flags, &[base], base.powf(n), false)?;
        Ok(base.powf(n))
    }
    fn call(&self, func: &str, args: Vec<f64>) -> R<f64> {
        match func {
            "Min" | "Max" | "Avg" | "Med" => agg_f64(func, &args, &self.flags),
            "Mod" | "Pow" | "Atan2" | "Log" | "Root" | "ILog" => { let r = fn2_f64(func, args[0], args[1], &self.flags)?; free_zero(&self.flags, &args, r, func == "Atan2")?; Ok(r) }
            _ => { let r = fn1_f64(func, args[0], &self.flags)?; free_zero(&self.flags, &args[..1], r, false)?; Ok(r) }
        }
    }
}
