//! Special functions used as oracles: Gamma (Lanczos g=7, reflection), Lambert W (principal
//! branch, Halley iteration to convergence), iterated logarithm on integers.
use std::f64::consts::PI;

const LG: [f64; 9] = [
    0.999_999_999_999_809_93, 676.520_368_121_885_1, -1_259.139_216_722_402_8, 771.323_428_777_653_13,
    -176.615_029_162_140_59, 12.507_343_278_686_905, -0.138_571_095_265_720_12,
    9.984_369_578_019_571_6e-6, 1.505_632_735_149_311_6e-7,
];

/// ln|Gamma(z)| for z >= 0.5
fn ln_gamma_pos(z: f64) -> f64 {
    let z = z - 1.0;
    let mut x = LG[0];
    for (i, c) in LG.iter().enumerate().skip(1) { x += c / (z + i as f64); }
    let t = z + 7.5;
    0.5 * (2.0 * PI).ln() + (z + 0.5) * t.ln() - t + x.ln()
}

/// Gamma(z) for real z, |z| <= ~170; NaN at the poles
pub fn gamma(z: f64) -> f64 {
    if z.is_nan() { return f64::NAN; }
    if z < 0.5 {
        if z == z.floor() { return f64::NAN; }
        // reflection; reduce the sine argument to keep precision
        let r = z - 2.0 * (z / 2.0).floor(); // in [0,2)
        let s = (PI * r).sin();
        PI / (s * gamma(1.0 - z))
    } else if z < 25.0 {
        // direct product form is more accurate than exp(lnGamma) for small z
        let zz = z - 1.0;
        let mut x = LG[0];
        for (i, c) in LG.iter().enumerate().skip(1) { x += c / (zz + i as f64); }
        let t = zz + 7.5;
        (2.0 * PI).sqrt() * t.powf(zz + 0.5) * (-t).exp() * x
    } else {
        ln_gamma_pos(z).exp()
    }
}

/// principal branch W0(x) for x >= -1/e; None outside the domain or for non-finite x
pub fn lambert_w(x: f64) -> Option<f64> {
    if !x.is_finite() { return None; }
    let em1 = (-1.0f64).exp();
    if x < -em1 { return None; }
    if x == 0.0 { return Some(0.0); }
    let mut w = if x < -0.25 {
        let p = (2.0 * (std::f64::consts::E * x + 1.0)).max(0.0).sqrt();
        -1.0 + p - p * p / 3.0 + 11.0 / 72.0 * p * p * p
    } else if x < 3.0 {
        // Pade-like start
        let l = (1.0 + x).ln();
        l * (1.0 - (1.0 + l).ln() / (2.0 + l))
    } else {
        let l1 = x.ln();
        let l2 = l1.ln();
        l1 - l2 + l2 / l1
    };
    for _ in 0..100 {
        let ew = w.exp();
        let f = w * ew - x;
        if f == 0.0 { break; }
        let d = ew * (w + 1.0) - (w + 2.0) * f / (2.0 * w + 2.0);
        if d == 0.0 || !d.is_finite() { break; }
        let nw = w - f / d;
        if !nw.is_finite() { break; }
        if (nw - w).abs() <= 1e-16 * nw.abs().max(1e-300) { w = nw; break; }
        w = nw;
    }
    Some(w)
}

/// floor(log_b(n)) for integers n >= 1, b >= 2
pub fn ilog_floor(n: u128, b: u128) -> u32 {
    let mut k = 0;
    let mut p = b;
    while p <= n { k += 1; match p.checked_mul(b) { Some(q) => p = q, None => break } }
    k
}

/// the iterated logarithm as string_calculator defines it: the number of times
/// n <- floor(log_b n) is applied until n <= 1 (integers n >= 0, b >= 2)
pub fn ilog_iter(n: u128, b: u128) -> u32 {
    let mut n = n;
    let mut x = 0;
    while n > 1 { x += 1; n = ilog_floor(n, b) as u128; }
    x
}
