//! eval_complex (C08): own pair arithmetic; + - * neg by the textbook component formulas,
//! everything else by its principal-branch definition through exp / ln / atan2.
use super::{Flags, Sem, Stop, R};

pub type Z = (f64, f64);
pub struct CpxSem {
    pub ph: Z,
    pub flags: Flags,
}
impl CpxSem { pub fn new(ph: Z) -> Self { CpxSem { ph, flags: Flags::default() } } }

pub fn add(a: Z, b: Z) -> Z { (a.0 + b.0, a.1 + b.1) }
pub fn sub(a: Z, b: Z) -> Z { (a.0 - b.0, a.1 - b.1) }
pub fn mul(a: Z, b: Z) -> Z { (a.0 * b.0 - a.1 * b.1, a.0 * b.1 + a.1 * b.0) }
pub fn neg(a: Z) -> Z { (-a.0, -a.1) }
pub fn div(a: Z, b: Z) -> Z { let n = b.0 * b.0 + b.1 * b.1; ((a.0 * b.0 + a.1 * b.1) / n, (a.1 * b.0 - a.0 * b.1) / n) }
pub fn modulus(a: Z) -> f64 { a.0.hypot(a.1) }
pub fn scale(a: Z, k: f64) -> Z { (a.0 * k, a.1 * k) }
pub fn exp(a: Z) -> Z { let m = a.0.exp(); (m * a.1.cos(), m * a.1.sin()) }
pub fn ln(a: Z) -> Z { (modulus(a).ln(), a.1.atan2(a.0)) }
pub fn sqrt(a: Z) -> Z { if a == (0.0, 0.0) { return (0.0, 0.0); } exp(scale(ln(a), 0.5)) }
pub fn powc(a: Z, w: Z) -> Z { if a == (0.0, 0.0) { return if w == (0.0, 0.0) { (1.0, 0.0) } else { (0.0, 0.0) }; } exp(mul(w, ln(a))) }
const I: Z = (0.0, 1.0);
const ONE: Z = (1.0, 0.0);
/// ln(1 + w) without forming 1 + w (accurate for small |w|)
pub fn ln1p(w: Z) -> Z {
    // the expansion |1+w|^2 - 1 = 2 Re w + |w|^2 is only better than forming 1 + w while w is small (next to w = -1 it cancels)
    if modulus(w) < 0.5 { (0.5 * (2.0 * w.0 + w.0 * w.0 + w.1 * w.1).ln_1p(), w.1.atan2(1.0 + w.0)) } else { ln(add(ONE, w)) }
}
/// principal asinh: odd; ln(1 + z + z^2/(1 + sqrt(z^2+1))) for small |z| (no cancellation against 1), ln(2z) for huge |z|
pub fn asinh(z: Z) -> Z {
    if z.0 < 0.0 { return neg(asinh(neg(z))); }
    let m = modulus(z);
    if m > 1e8 { let l = ln(z); return (l.0 + std::f64::consts::LN_2, l.1); }
    let zz = mul(z, z);
    let iz = mul(I, z);
    let s = sqrt(mul(add(ONE, iz), sub(ONE, iz)));      // 1 + z^2 = (1 + iz)(1 - iz): no cancellation near z = +-i
    if m < 0.5 { ln1p(add(z, div(zz, add(ONE, s)))) } else { ln(add(z, s)) }
}
/// principal atanh = (ln(1+z) - ln(1-z)) / 2
pub fn atanh(z: Z) -> Z { scale(sub(ln1p(z), ln1p(neg(z))), 0.5) }
/// asin z = -i asinh(iz);  atan z = -i atanh(iz)
pub fn asin(z: Z) -> Z { let w = asinh((-z.1, z.0)); (w.1, -w.0) }
pub fn atan(z: Z) -> Z { let w = atanh((-z.1, z.0)); (w.1, -w.0) }
/// acosh z = ln(z + sqrt(z+1) sqrt(z-1)) = ln(1 + (z-1) + sqrt(z+1) sqrt(z-1))
pub fn acosh(z: Z) -> Z { let r = mul(sqrt(add(z, ONE)), sqrt(sub(z, ONE))); let d = sub(z, ONE);
                          if modulus(d) < 0.5 { ln1p(add(d, r)) } else if modulus(z) > 1e8 { let l = ln(z); (l.0 + std::f64::consts::LN_2, l.1) } else { ln(add(z, r)) } }

/// is z within `rel` of the ray { t*dir : t >= from } on an axis?  axis: 0 = real, 1 = imaginary
fn near_real_below(z: Z, bound: f64) -> bool { z.0 <= bound + 1e-6 * (1.0 + z.0.abs()) && z.1.abs() <= 1e-6 * (1.0 + modulus(z)) }
fn near_real_above(z: Z, bound: f64) -> bool { z.0 >= bound - 1e-6 * (1.0 + z.0.abs()) && z.1.abs() <= 1e-6 * (1.0 + modulus(z)) }
fn near_imag_outside(z: Z) -> bool { z.1.abs() >= 1.0 - 1e-6 && z.0.abs() <= 1e-6 * (1.0 + modulus(z)) }

impl CpxSem {
    fn t(&self, z: Z) -> R<Z> {
        if !(z.0.is_finite() && z.1.is_finite()) { return Err(Stop::Unspec("NonFiniteComplexResult")); }
        self.flags.inexact(1e-9); Ok(z)
    }
    fn cut(&self, cond: bool) -> R<()> { if cond { Err(Stop::Unspec("NearBranchCut")) } else { Ok(()) } }
}

impl Sem for CpxSem {
    type V = Z;
    fn flags(&self) -> &Flags { &self.flags }
    fn lit(&self, text: &str, imag: bool) -> R<Z> {
        let t = if text.starts_with('.') { format!("0{}", text) } else { text.to_string() };
        let v = t.parse::<f64>().map_err(|_| Stop::Err("malformed literal"))?;
        Ok(if imag { (0.0, v) } else { (v, 0.0) })
    }
    fn ans(&self) -> Z { self.ph }
    fn konst(&self, name: &str) -> R<Z> { Ok((if name == "PI" { std::f64::consts::PI } else { std::f64::consts::E }, 0.0)) }
    fn zero(&self) -> Z { (0.0, 0.0) }
    fn un(&self, op: &str, a: Z) -> R<Z> {
        if op != "neg" && !(a.0.is_finite() && a.1.is_finite()) { return Err(Stop::Unspec("NonFiniteComplexOperand")); }
        match op {
            "neg" => Ok(neg(a)),
            "deg" => { self.flags.inexact(1e-9); Ok(scale(a, std::f64::consts::PI / 180.0)) }
            "rad" => { self.flags.inexact(1e-9); Ok(scale(a, 180.0 / std::f64::consts::PI)) }
            _ => Err(Stop::Err("operator not offered")),
        }
    }
    fn bin(&self, op: &str, a: Z, b: Z) -> R<Z> {
        if op != "add" && op != "sub" && !(a.0.is_finite() && a.1.is_finite() && b.0.is_finite() && b.1.is_finite()) { return Err(Stop::Unspec("NonFiniteComplexOperand")); }
        match op {
            "add" | "sub" => { let r = if op == "add" { add(a, b) } else { sub(a, b) };
                               if self.flags.tol.get() > 0.0 && modulus(r) < 1e-3 * modulus(a).max(modulus(b)) { return Err(Stop::Unspec("CancellationAfterInexactOperation")); }
                               Ok(r) }
            "mul" => Ok(mul(a, b)),
            "div" => { if b == (0.0, 0.0) { return Err(Stop::Unspec("ComplexDivisionByZero")); }
                       self.flags.inexact(1e-12); let z = div(a, b);
                       if !(z.0.is_finite() && z.1.is_finite()) { return Err(Stop::Unspec("NonFiniteComplexResult")); } Ok(z) }
            "pow" => { // a whole real exponent makes the power single-valued: both sides of the cut of ln give the same product
                       let whole = b.1 == 0.0 && b.0.fract() == 0.0 && b.0.abs() <= 64.0 && a != (0.0, 0.0);
                       if !whole { self.cut(near_real_below(a, 0.0))?; }
                       if self.flags.tol.get() > 0.0 && !(modulus(b) <= 1e2) { return Err(Stop::Unspec("ErrorAmplificationAfterInexactOperation")); }
                       self.t(powc(a, b)) }
            _ => Err(Stop::Err("operator not offered")),
        }
    }
    fn sup(&self, base: Z, digits: &str) -> R<Z> {
        let n = digits.parse::<f64>().map_err(|_| Stop::Err("malformed superscript"))?;
        self.bin("pow", base, (n, 0.0))
    }
    fn call(&self, func: &str, args: Vec<Z>) -> R<Z> {
        let z = args[0];
        if args.iter().any(|a| !(a.0.is_finite() && a.1.is_finite())) { return Err(Stop::Unspec("NonFiniteComplexOperand")); }
        // functions that amplify the (tolerated) relative error of an inexact operand by its magnitude: outside what a fixed tolerance decides
        if self.flags.tol.get() > 0.0 && matches!(func, "Exp" | "Exp2" | "Sin" | "Cos" | "Tan" | "Sinh" | "Cosh" | "Tanh") && !(modulus(z) <= 1e2) {
            return Err(Stop::Unspec("ErrorAmplificationAfterInexactOperation"));
        }
        match func {
            "Abs" => { self.flags.inexact(1e-12); Ok((modulus(z), 0.0)) }
            "Exp" => self.t(exp(z)),
            "Exp2" => self.t(exp(scale(z, std::f64::consts::LN_2))),
            "Ln" => { self.cut(near_real_below(z, 0.0))?; self.t(ln(z)) }
            "Lb" => { self.cut(near_real_below(z, 0.0))?; self.t(scale(ln(z), 1.0 / std::f64::consts::LN_2)) }
            "Sqrt" => { self.cut(near_real_below(z, 0.0))?; self.t(sqrt(z)) }
            "Log" => { self.cut(near_real_below(z, 0.0) || near_real_below(args[1], 0.0))?;
                       let d = ln(args[1]); if modulus(d) < 1e-9 { return Err(Stop::Unspec("LogBaseOne")); } self.t(div(ln(z), d)) }
            "Pow" => self.bin("pow", z, args[1]),
            "Root" => { let x = args[1]; if z == (0.0, 0.0) { return Err(Stop::Unspec("RootZero")); }
                        self.cut(near_real_below(x, 0.0))?; self.t(powc(x, div(ONE, z))) }
            "Sin" => self.t((z.0.sin() * z.1.cosh(), z.0.cos() * z.1.sinh())),
            "Cos" => self.t((z.0.cos() * z.1.cosh(), -(z.0.sin() * z.1.sinh()))),
            "Tan" => { let s = (z.0.sin() * z.1.cosh(), z.0.cos() * z.1.sinh()); let c = (z.0.cos() * z.1.cosh(), -(z.0.sin() * z.1.sinh()));
                       if modulus(c) < 1e-6 { return Err(Stop::Unspec("NearPole")); } self.t(div(s, c)) }
            "Sinh" => self.t((z.0.sinh() * z.1.cos(), z.0.cosh() * z.1.sin())),
            "Cosh" => self.t((z.0.cosh() * z.1.cos(), z.0.sinh() * z.1.sin())),
            "Tanh" => { let s = (z.0.sinh() * z.1.cos(), z.0.cosh() * z.1.sin()); let c = (z.0.cosh() * z.1.cos(), z.0.sinh() * z.1.sin());
                        if modulus(c) < 1e-6 { return Err(Stop::Unspec("NearPole")); } self.t(div(s, c)) }
            "Asin" => { self.cut(near_real_below(z, -1.0) || near_real_above(z, 1.0))?;
                        self.t(asin(z)) }
            "Acos" => { self.cut(near_real_below(z, -1.0) || near_real_above(z, 1.0))?;
                        let a = asin(z); self.t((std::f64::consts::FRAC_PI_2 - a.0, -a.1)) }
            "Atan" => { self.cut(near_imag_outside(z))?;
                        self.t(atan(z)) }
            "Arsinh" => { self.cut(near_imag_outside(z))?; self.t(asinh(z)) }
            "Arcosh" => { self.cut(near_real_below(z, 1.0))?; self.t(acosh(z)) }
            "Artanh" => { self.cut(near_real_below(z, -1.0) || near_real_above(z, 1.0))?;
                          self.t(atanh(z)) }
            _ => Err(Stop::Err("function not offered")),
        }
    }
}
