//! Reference interpreter: a transcription of the specification's evaluation rules
//! (spec/IntSem.tla, NumSem.tla, FloatSem.tla, DecSem.tla, CpxSem.tla, Aggregates.tla)
//! over the trees the specification derives.  Parametric in the integer width W exactly
//! as the specification is; bound to it by `ref-selftest` (TLC's own vectors at W = 8).
pub mod f64sem;
pub mod i64sem;
pub mod numsem;
pub mod decsem;
pub mod cpxsem;
pub mod special;
pub mod bignum;

use crate::render::Asg;
use crate::tree::T;
use std::cell::Cell;

/// why an expected outcome is not a definite value
#[derive(Clone, Debug, PartialEq)]
pub enum Stop {
    /// the evaluator must return Err
    Err(&'static str),
    /// the properties leave this behaviour open (named rule); only C01/C02/C16 and the metamorphic relations apply
    Unspec(&'static str),
}
pub type R<V> = Result<V, Stop>;

/// how precisely an expected value is known
#[derive(Clone, Copy, Debug, PartialEq)]
pub struct Precision {
    /// relative tolerance; 0.0 = bit-exact
    pub tol: f64,
    /// the sign of a zero result is not determined (sgn(+-0))
    pub zero_sign_free: bool,
    /// for eval_number: the Integer/Float variant is not determined (only the numeric value)
    pub variant_free: bool,
    /// absolute slack in units (eval_i64 real-valued functions: within 1)
    pub abs_slack: i64,
    /// number of tolerance-checked (inexact) operations on the way to the result: their errors compound, so a fixed
    /// tolerance decides the result only when there are few of them
    pub inexact_ops: u32,
}
impl Default for Precision {
    fn default() -> Self { Precision { tol: 0.0, zero_sign_free: false, variant_free: false, abs_slack: 0, inexact_ops: 0 } }
}

/// flags accumulated during one evaluation
#[derive(Default)]
pub struct Flags {
    pub tol: Cell<f64>,
    pub zero_sign_free: Cell<bool>,
    pub variant_free: Cell<bool>,
    pub abs_slack: Cell<i64>,
    /// number of operator applications (used for non-triviality counting)
    pub ops: Cell<usize>,
    /// C15 scope: largest magnitude of any intermediate value, whether a negative zero / a non-finite value occurred,
    /// whether an integer was raised to a negative integer power, whether an integer division was inexact
    pub max_abs: Cell<f64>,
    pub saw_negzero: Cell<bool>,
    pub saw_nonfinite: Cell<bool>,
    pub int_negpow: Cell<bool>,
    pub inexact_div: Cell<bool>,
    /// the evaluation only decides a scope predicate (C15): the guards that protect tolerance comparisons are off
    pub scope_only: Cell<bool>,
    pub inexact_ops: Cell<u32>,
    /// largest magnitude of an operand of a sum formed after an inexact operation (cumulative cancellation)
    pub max_inexact: Cell<f64>,
}
impl Flags {
    pub fn inexact(&self, tol: f64) { if tol > self.tol.get() { self.tol.set(tol); } self.inexact_ops.set(self.inexact_ops.get() + 1); }
    pub fn precision(&self) -> Precision {
        Precision { tol: self.tol.get(), zero_sign_free: self.zero_sign_free.get(), variant_free: self.variant_free.get(), abs_slack: self.abs_slack.get(),
                    inexact_ops: self.inexact_ops.get() }
    }
}

pub trait Sem {
    type V: Clone + std::fmt::Debug;
    fn flags(&self) -> &Flags;
    fn lit(&self, text: &str, imag: bool) -> R<Self::V>;
    fn ans(&self) -> Self::V;
    fn konst(&self, name: &str) -> R<Self::V>;
    fn zero(&self) -> Self::V;
    fn un(&self, op: &str, a: Self::V) -> R<Self::V>;
    fn bin(&self, op: &str, a: Self::V, b: Self::V) -> R<Self::V>;
    fn sup(&self, base: Self::V, digits: &str) -> R<Self::V>;
    fn call(&self, func: &str, args: Vec<Self::V>) -> R<Self::V>;
    /// every intermediate value of a tree evaluation passes through here (scope predicates of C15)
    fn observe(&self, _v: &Self::V) {}
}

/// combine stops: an Err anywhere makes the whole evaluation Err (every subtree is evaluated,
/// an unspecified subtree yields a value or Err); otherwise an unspecified part makes the whole unspecified
fn merge(a: Option<Stop>, b: Stop) -> Option<Stop> {
    match (a, b) {
        (Some(Stop::Err(x)), _) => Some(Stop::Err(x)),
        (_, Stop::Err(y)) => Some(Stop::Err(y)),
        (Some(Stop::Unspec(x)), _) => Some(Stop::Unspec(x)),
        (None, s) => Some(s),
    }
}

pub fn eval<S: Sem>(s: &S, t: &T, a: &Asg) -> R<S::V> {
    let r = eval_node(s, t, a);
    if let Ok(v) = &r { s.observe(v); }
    r
}

fn eval_node<S: Sem>(s: &S, t: &T, a: &Asg) -> R<S::V> {
    let un = |op: &str, x: &T| -> R<S::V> { let v = eval(s, x, a)?; s.flags().ops.set(s.flags().ops.get() + 1); s.un(op, v) };
    match t {
        T::Num(p) => { let (txt, im) = a.lits.get(p).expect("literal assignment"); s.lit(txt, *im) }
        T::Ans(_) => Ok(s.ans()),
        T::Const(p) => s.konst(a.consts.get(p).expect("const assignment")),
        T::Zero(_) => Ok(s.zero()),
        T::Neg(x) => un("neg", x),
        T::Fact(x) => un("fact", x),
        T::Deg(x) => un("deg", x),
        T::Rad(x) => un("rad", x),
        T::Grp(k, x) => match k.as_str() { "lf" => un("floor", x), "lc" => un("ceil", x), _ => eval(s, x, a) },
        T::PSup(x, p) => { let v = eval(s, x, a)?; s.flags().ops.set(s.flags().ops.get() + 1); s.sup(v, a.sups.get(p).expect("sup assignment")) }
        T::Bin(op, l, r) => bin(s, op, l, r, a),
        T::IMul(l, r) => bin(s, "mul", l, r, a),
        T::Call(_, p, args) => {
            let mut stop = None;
            let mut vs = Vec::new();
            for x in args { match eval(s, x, a) { Ok(v) => vs.push(v), Err(e) => stop = merge(stop, e) } }
            if let Some(e) = stop { return Err(e); }
            s.flags().ops.set(s.flags().ops.get() + 1);
            s.call(a.fns.get(p).expect("fn assignment"), vs)
        }
    }
}

fn bin<S: Sem>(s: &S, op: &str, l: &T, r: &T, a: &Asg) -> R<S::V> {
    let lv = eval(s, l, a);
    let rv = eval(s, r, a);
    match (lv, rv) {
        (Ok(x), Ok(y)) => { s.flags().ops.set(s.flags().ops.get() + 1); s.bin(op, x, y) }
        (Err(e), Ok(_)) | (Ok(_), Err(e)) => Err(e),
        (Err(e1), Err(e2)) => Err(merge(Some(e1), e2).unwrap()),
    }
}
