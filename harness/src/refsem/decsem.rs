//! eval_decimal (C07, C10, C11): exact base-10 arithmetic on arbitrary-precision integers;
//! Err on a zero divisor and outside the Decimal range; non-terminating quotients within the
//! stated tolerance (checked exactly, as a rational inequality, by `crate::compare`).
use super::bignum::BigInt;
use super::special::{gamma, ilog_iter, lambert_w};
use super::{Flags, Sem, Stop, R};
use std::cmp::Ordering;

pub const MAX_SCALE: u32 = 28;

// The format is a parameter exactly as in spec/DecSem.tla (P digits of coefficient, S places): rust_decimal's 96 bits / 28 places
// by default, the specification's toy format while its vectors are replayed (ref-selftest).
thread_local! { static FORMAT: std::cell::RefCell<Option<(BigInt, u32)>> = std::cell::RefCell::new(None); }
pub fn set_toy_format(p: u32, s: u32) { FORMAT.with(|f| *f.borrow_mut() = Some((BigInt::pow10(p).sub(&BigInt::from_u64(1)), s))); }
pub fn set_real_format() { FORMAT.with(|f| *f.borrow_mut() = None); }
pub fn max_scale() -> u32 { FORMAT.with(|f| f.borrow().as_ref().map_or(MAX_SCALE, |x| x.1)) }

#[derive(Clone, Debug, PartialEq)]
pub enum DV {
    /// exactly c / 10^s
    Dec { c: BigInt, s: u32 },
    /// exactly n / d, a quotient whose decimal expansion does not terminate within 28 places
    Quot { n: BigInt, d: BigInt },
    /// a real number known approximately (functions specified within 1e-9)
    Approx(f64),
}

pub fn dec_max() -> BigInt { FORMAT.with(|f| f.borrow().as_ref().map(|x| x.0.clone())).unwrap_or_else(|| BigInt::parse("79228162514264337593543950335").unwrap()) }

pub fn dec_from_str(t: &str) -> Option<DV> {
    let (neg, t) = if let Some(r) = t.strip_prefix('-') { (true, r) } else { (false, t) };
    let (ip, fp) = match t.find('.') { Some(i) => (&t[..i], &t[i + 1..]), None => (t, "") };
    let digits = format!("{}{}", if ip.is_empty() { "0" } else { ip }, fp);
    let c = BigInt::parse(&digits)?;
    Some(DV::Dec { c: if neg { c.neg() } else { c }, s: fp.len() as u32 })
}

/// minimal-scale form
pub fn normalize(c: &BigInt, s: u32) -> (BigInt, u32) {
    let ten = BigInt::from_u64(10);
    let (mut c, mut s) = (c.clone(), s);
    while s > 0 {
        let (q, r) = c.divrem(&ten);
        if !r.is_zero() { break; }
        c = q; s -= 1;
    }
    (c, s)
}

/// classify an exact decimal result against the Decimal format
pub fn classify(c: &BigInt, s: u32) -> R<DV> {
    let (cm, sm) = normalize(c, s);
    // |value| > MAX  <=>  |cm| > MAX * 10^sm
    // |value| > MAX.  Within half a unit above MAX the correctly rounded result is MAX itself, which is in range: the statement
    // does not say whether "outside the range" refers to the exact or to the rounded result, so that sliver is not asserted.
    let lim = dec_max().mul(&BigInt::pow10(sm));
    if cm.abs().cmp(&lim) == Ordering::Greater {
        let twice_excess = cm.abs().sub(&lim).mul(&BigInt::from_u64(2));
        if twice_excess.cmp(&BigInt::pow10(sm)) == Ordering::Less { return Err(Stop::Unspec("DecimalRangeEdge")); }
        return Err(Stop::Err("outside the Decimal range"));
    }
    if sm > max_scale() { return Err(Stop::Unspec("DecimalScaleBeyond28")); }
    if cm.abs().cmp(&dec_max()) == Ordering::Greater { return Err(Stop::Unspec("DecimalCoefficientBeyond96Bits")); }
    Ok(DV::Dec { c: cm, s: sm })
}

pub fn to_f64(c: &BigInt, s: u32) -> f64 {
    format!("{}e-{}", c.to_string(), s).parse::<f64>().unwrap_or(f64::NAN)
}

pub struct DecSem {
    pub ph: DV,
    pub flags: Flags,
}
impl DecSem {
    pub fn new(ph: DV) -> Self { DecSem { ph, flags: Flags::default() } }
    fn exact(&self, v: &DV) -> R<(BigInt, u32)> {
        match v {
            DV::Dec { c, s } => Ok((c.clone(), *s)),
            DV::Quot { .. } => Err(Stop::Unspec("InexactQuotientNested")),
            DV::Approx(_) => Err(Stop::Unspec("ApproximateValueNested")),
        }
    }
    fn approx(&self, x: f64) -> R<DV> {
        if x.is_nan() { return Err(Stop::Unspec("FunctionOutsideDomain")); }
        if !x.is_finite() || x.abs() > 1.0e28 { return Err(Stop::Unspec("ApproximateValueNearOrBeyondRange")); }
        if x != 0.0 && x.abs() < 1e-18 { return Err(Stop::Unspec("ApproximateValueBelowResolution")); }
        self.flags.inexact(1e-9);
        Ok(DV::Approx(x))
    }
    fn f(&self, v: &DV) -> R<f64> { let (c, s) = self.exact(v)?; Ok(to_f64(&c, s)) }
    fn quotient(&self, n: BigInt, d: BigInt) -> R<DV> {
        // exact when the expansion terminates within 28 places
        if d.is_zero() { return Err(Stop::Err("division by zero")); }
        for k in 0..=max_scale() {
            let (q, r) = n.mul(&BigInt::pow10(k)).divrem(&d);
            if r.is_zero() { return classify(&q, k); }
        }
        // |n/d| > MAX ?
        if n.abs().cmp(&dec_max().mul(&d.abs())) == Ordering::Greater { return Err(Stop::Err("outside the Decimal range")); }
        Ok(DV::Quot { n, d })
    }
}

fn align(a: &(BigInt, u32), b: &(BigInt, u32)) -> (BigInt, BigInt, u32) {
    let s = a.1.max(b.1);
    (a.0.mul(&BigInt::pow10(s - a.1)), b.0.mul(&BigInt::pow10(s - b.1)), s)
}
fn cmp_dec(a: &(BigInt, u32), b: &(BigInt, u32)) -> Ordering { let (x, y, _) = align(a, b); x.cmp(&y) }

fn round_to_int(c: &BigInt, s: u32, mode: &str) -> BigInt {
    let p = BigInt::pow10(s);
    let (q, r) = c.divrem(&p);
    if r.is_zero() { return q; }
    let one = BigInt::from_u64(1);
    match mode {
        "trunc" => q,
        "floor" => if c.neg { q.sub(&one) } else { q },
        "ceil" => if c.neg { q } else { q.add(&one) },
        _ => { // half-even
            let twice = r.abs().mul(&BigInt::from_u64(2));
            let away = if c.neg { q.sub(&one) } else { q.add(&one) };
            match twice.cmp(&p) { Ordering::Less => q, Ordering::Greater => away, Ordering::Equal => if q.is_even() { q } else { away } }
        }
    }
}

impl Sem for DecSem {
    type V = DV;
    fn flags(&self) -> &Flags { &self.flags }
    fn lit(&self, text: &str, _imag: bool) -> R<DV> {
        let v = dec_from_str(text).ok_or(Stop::Err("malformed literal"))?;
        if let DV::Dec { c, s } = &v {
            let sig = c.abs().to_string().len();
            if sig > 28 || *s > MAX_SCALE { return Err(Stop::Unspec("OverlongLiteral")); }
        }
        Ok(v)
    }
    fn ans(&self) -> DV { self.ph.clone() }
    fn konst(&self, name: &str) -> R<DV> {
        self.flags.inexact(1e-9);
        Ok(dec_from_str(if name == "PI" { "3.1415926535897932384626433833" } else { "2.7182818284590452353602874714" }).unwrap())
    }
    fn zero(&self) -> DV { DV::Dec { c: BigInt::zero(), s: 0 } }
    fn un(&self, op: &str, a: DV) -> R<DV> {
        let (c, s) = self.exact(&a)?;
        match op {
            "neg" => Ok(DV::Dec { c: c.neg(), s }),
            "floor" | "ceil" => Ok(DV::Dec { c: round_to_int(&c, s, op), s: 0 }),
            "fact" => {
                let (cn, sn) = normalize(&c, s);
                if sn == 0 {
                    if cn.neg { return Err(Stop::Unspec("FactorialAtPole")); }
                    let n = cn.to_i128().unwrap_or(i128::MAX);
                    if n > 27 { return Err(Stop::Err("outside the Decimal range")); }
                    let mut r = BigInt::from_u64(1);
                    for i in 2..=n { r = r.mul(&BigInt::from_i128(i)); }
                    classify(&r, 0)
                } else {
                    let x = to_f64(&c, s);
                    if x.abs() > 26.0 { return Err(Stop::Unspec("GammaNearOrBeyondRange")); }
                    self.approx(gamma(x + 1.0))
                }
            }
            _ => Err(Stop::Err("operator not offered")),
        }
    }
    fn bin(&self, op: &str, a: DV, b: DV) -> R<DV> {
        let x = self.exact(&a)?;
        let y = self.exact(&b)?;
        match op {
            "add" => { let (p, q, s) = align(&x, &y); classify(&p.add(&q), s) }
            "sub" => { let (p, q, s) = align(&x, &y); classify(&p.sub(&q), s) }
            "mul" => classify(&x.0.mul(&y.0), x.1 + y.1),
            "div" => { if y.0.is_zero() { return Err(Stop::Err("division by zero")); }
                       self.quotient(x.0.mul(&BigInt::pow10(y.1)), y.0.mul(&BigInt::pow10(x.1))) }
            "mod" => { if y.0.is_zero() { return Err(Stop::Err("remainder by zero")); }
                       let (p, q, s) = align(&x, &y); let (_, r) = p.divrem(&q); classify(&r, s) }
            "pow" => {
                let (xf, yf) = (to_f64(&x.0, x.1), to_f64(&y.0, y.1));
                // a negative base has a real power only for an integral exponent - decided on the exact decimal, not on its double
                let y_integral = y.0.divrem(&BigInt::pow10(y.1)).1.is_zero();
                if xf < 0.0 && !y_integral { return Err(Stop::Unspec("FunctionOutsideDomain")); }
                if xf == 0.0 && yf <= 0.0 { return Err(Stop::Unspec("FunctionOutsideDomain")); }
                if yf.abs() > 1e6 { return Err(Stop::Unspec("HugeExponent")); }
                let r = xf.powf(yf);
                if r == 0.0 && xf != 0.0 { return Err(Stop::Unspec("ApproximateValueBelowResolution")); }
                self.approx(r)
            }
            _ => Err(Stop::Err("operator not offered")),
        }
    }
    fn sup(&self, base: DV, digits: &str) -> R<DV> {
        let e = self.lit(digits, false)?;
        self.bin("pow", base, e)
    }
    fn call(&self, func: &str, args: Vec<DV>) -> R<DV> {
        match func {
            "Abs" => { let (c, s) = self.exact(&args[0])?; Ok(DV::Dec { c: c.abs(), s }) }
            "Sign" => { let (c, _) = self.exact(&args[0])?; Ok(DV::Dec { c: BigInt::from_i128(if c.is_zero() { 0 } else if c.neg { -1 } else { 1 }), s: 0 }) }
            "Floor" | "Ceil" | "Round" | "Truncate" => {
                let (c, s) = self.exact(&args[0])?;
                let m = match func { "Floor" => "floor", "Ceil" => "ceil", "Truncate" => "trunc", _ => "even" };
                Ok(DV::Dec { c: round_to_int(&c, s, m), s: 0 })
            }
            "Mod" => self.bin("mod", args[0].clone(), args[1].clone()),
            "Pow" => self.bin("pow", args[0].clone(), args[1].clone()),
            "Min" | "Max" => {
                let vs: Vec<(BigInt, u32)> = args.iter().map(|a| self.exact(a)).collect::<R<Vec<_>>>()?;
                let mut best = vs[0].clone();
                for v in &vs[1..] {
                    let o = cmp_dec(v, &best);
                    if (func == "Min" && o == Ordering::Less) || (func == "Max" && o == Ordering::Greater) { best = v.clone(); }
                }
                Ok(DV::Dec { c: best.0, s: best.1 })
            }
            "Avg" => {
                let vs: Vec<(BigInt, u32)> = args.iter().map(|a| self.exact(a)).collect::<R<Vec<_>>>()?;
                let mut acc = (BigInt::zero(), 0u32);
                for v in &vs { let (p, q, s) = align(&acc, v); acc = (p.add(&q), s); }
                // a mean whose sum leaves the format: the statements do not say whether the detour over the parts must succeed
                if acc.0.abs().cmp(&dec_max().mul(&BigInt::pow10(acc.1))) == Ordering::Greater { return Err(Stop::Unspec("SumOutsideRange")); }
                self.quotient(acc.0, BigInt::pow10(acc.1).mul(&BigInt::from_i128(vs.len() as i128)))
            }
            "Med" => {
                let mut vs: Vec<(BigInt, u32)> = args.iter().map(|a| self.exact(a)).collect::<R<Vec<_>>>()?;
                vs.sort_by(cmp_dec);
                let n = vs.len();
                if n % 2 == 1 { Ok(DV::Dec { c: vs[n / 2].0.clone(), s: vs[n / 2].1 }) } else {
                    let (p, q, s) = align(&vs[n / 2 - 1], &vs[n / 2]);
                    self.quotient(p.add(&q), BigInt::pow10(s).mul(&BigInt::from_u64(2)))
                }
            }
            "Sqrt" => { let x = self.f(&args[0])?; if x < 0.0 { return Err(Stop::Unspec("FunctionOutsideDomain")); } self.approx(x.sqrt()) }
            // (the double of a Decimal next to 1 has lost what the logarithm is about: 1 + 2e-28 is 1.0)
            "Ln" => { let x = self.f(&args[0])?; if x <= 0.0 { return Err(Stop::Unspec("FunctionOutsideDomain")); } if (x - 1.0).abs() < 1e-6 { return Err(Stop::Unspec("LogarithmNextToOne")); } self.approx(x.ln()) }
            "Lb" => { let x = self.f(&args[0])?; if x <= 0.0 { return Err(Stop::Unspec("FunctionOutsideDomain")); } if (x - 1.0).abs() < 1e-6 { return Err(Stop::Unspec("LogarithmNextToOne")); } self.approx(x.log2()) }
            "Exp" => { let x = self.f(&args[0])?; if x < -60.0 { return Err(Stop::Unspec("ApproximateValueBelowResolution")); } self.approx(x.exp()) }
            "Exp2" => { let x = self.f(&args[0])?; if x < -90.0 { return Err(Stop::Unspec("ApproximateValueBelowResolution")); } self.approx(x.exp2()) }
            "Log" => { let (x, b) = (self.f(&args[0])?, self.f(&args[1])?);
                       if x <= 0.0 || b <= 0.0 || b == 1.0 { return Err(Stop::Unspec("FunctionOutsideDomain")); }
                       if (x - 1.0).abs() < 1e-6 || (b - 1.0).abs() < 1e-6 { return Err(Stop::Unspec("LogarithmNextToOne")); } self.approx(x.ln() / b.ln()) }
            "Root" => { let (n, x) = (self.f(&args[0])?, self.f(&args[1])?);
                        if n == 0.0 || x < 0.0 || (x == 0.0 && n < 0.0) { return Err(Stop::Unspec("FunctionOutsideDomain")); }
                        if n.abs() < 1e-6 { return Err(Stop::Unspec("HugeExponent")); } self.approx(x.powf(1.0 / n)) }
            "LambertW" => { let x = self.f(&args[0])?; let em1 = (-1.0f64).exp();
                            if x < -em1 { return Err(Stop::Unspec("LambertWBelowDomain")); }
                            if x < -em1 + 1e-3 { return Err(Stop::Unspec("LambertWNearBranchPoint")); }
                            self.approx(lambert_w(x).unwrap()) }
            // no property states the value of ilog (C02 only requires that it returns)
            "ILog" => { let _ = ilog_iter; Err(Stop::Unspec("ILogValue")) }
            _ => Err(Stop::Err("function not offered")),
        }
    }
}
