//! Minimal arbitrary-precision integers (sign + magnitude, base 10^9) for the exact oracles:
//! decimal arithmetic (C07) and correctly-rounded literal conversion (C19).
//! No bignum crate is available offline; cross-checked against Python integers by `selftest-bignum`.
use std::cmp::Ordering;

const BASE: u64 = 1_000_000_000;

#[derive(Clone, Debug, PartialEq, Eq)]
pub struct BigInt {
    pub neg: bool,
    /// little-endian base-10^9 limbs, no trailing zero limbs; empty = 0
    pub mag: Vec<u32>,
}

fn trim(v: &mut Vec<u32>) { while let Some(&0) = v.last() { v.pop(); } }

fn cmp_mag(a: &[u32], b: &[u32]) -> Ordering {
    if a.len() != b.len() { return a.len().cmp(&b.len()); }
    for i in (0..a.len()).rev() { if a[i] != b[i] { return a[i].cmp(&b[i]); } }
    Ordering::Equal
}
fn add_mag(a: &[u32], b: &[u32]) -> Vec<u32> {
    let mut r = Vec::with_capacity(a.len().max(b.len()) + 1);
    let mut c = 0u64;
    for i in 0..a.len().max(b.len()) {
        let s = c + *a.get(i).unwrap_or(&0) as u64 + *b.get(i).unwrap_or(&0) as u64;
        r.push((s % BASE) as u32); c = s / BASE;
    }
    if c > 0 { r.push(c as u32); }
    r
}
/// a - b, requires a >= b
fn sub_mag(a: &[u32], b: &[u32]) -> Vec<u32> {
    let mut r = Vec::with_capacity(a.len());
    let mut br = 0i64;
    for i in 0..a.len() {
        let mut d = a[i] as i64 - br - *b.get(i).unwrap_or(&0) as i64;
        if d < 0 { d += BASE as i64; br = 1; } else { br = 0; }
        r.push(d as u32);
    }
    trim(&mut r);
    r
}
fn mul_mag(a: &[u32], b: &[u32]) -> Vec<u32> {
    if a.is_empty() || b.is_empty() { return vec![]; }
    let mut r = vec![0u64; a.len() + b.len() + 1];
    for i in 0..a.len() {
        let mut c = 0u64;
        for j in 0..b.len() {
            let t = r[i + j] + a[i] as u64 * b[j] as u64 + c;
            r[i + j] = t % BASE; c = t / BASE;
        }
        let mut k = i + b.len();
        while c > 0 { let t = r[k] + c; r[k] = t % BASE; c = t / BASE; k += 1; }
    }
    let mut v: Vec<u32> = r.into_iter().map(|x| x as u32).collect();
    trim(&mut v);
    v
}
fn mul_small(a: &[u32], m: u32) -> Vec<u32> {
    let mut r = Vec::with_capacity(a.len() + 1);
    let mut c = 0u64;
    for &x in a { let t = x as u64 * m as u64 + c; r.push((t % BASE) as u32); c = t / BASE; }
    if c > 0 { r.push(c as u32); }
    trim(&mut r);
    r
}
/// long division of magnitudes: (quotient, remainder); divisor non-zero
fn divrem_mag(a: &[u32], b: &[u32]) -> (Vec<u32>, Vec<u32>) {
    if cmp_mag(a, b) == Ordering::Less { return (vec![], a.to_vec()); }
    let mut q = vec![0u32; a.len()];
    let mut rem: Vec<u32> = vec![];
    for i in (0..a.len()).rev() {
        // rem = rem * BASE + a[i]
        rem.insert(0, a[i]);
        trim(&mut rem);
        // find digit d in 0..BASE with d*b <= rem by binary search
        let (mut lo, mut hi) = (0u64, BASE - 1);
        while lo < hi {
            let mid = (lo + hi + 1) / 2;
            let t = mul_small(b, mid as u32);
            if cmp_mag(&t, &rem) != Ordering::Greater { lo = mid; } else { hi = mid - 1; }
        }
        q[i] = lo as u32;
        if lo > 0 { rem = sub_mag(&rem, &mul_small(b, lo as u32)); }
    }
    trim(&mut q);
    (q, rem)
}

impl BigInt {
    pub fn zero() -> Self { BigInt { neg: false, mag: vec![] } }
    pub fn is_zero(&self) -> bool { self.mag.is_empty() }
    pub fn from_i128(x: i128) -> Self {
        let neg = x < 0;
        let mut u = x.unsigned_abs();
        let mut mag = vec![];
        while u > 0 { mag.push((u % BASE as u128) as u32); u /= BASE as u128; }
        BigInt { neg, mag }
    }
    pub fn from_u64(x: u64) -> Self { Self::from_i128(x as i128) }
    /// decimal digits only (optionally a leading '-')
    pub fn parse(s: &str) -> Option<Self> {
        let (neg, d) = if let Some(r) = s.strip_prefix('-') { (true, r) } else { (false, s) };
        if d.is_empty() || !d.bytes().all(|b| b.is_ascii_digit()) { return None; }
        let bytes = d.as_bytes();
        let mut mag = vec![];
        let mut end = bytes.len();
        while end > 0 {
            let start = end.saturating_sub(9);
            let chunk = std::str::from_utf8(&bytes[start..end]).unwrap();
            mag.push(chunk.parse::<u32>().unwrap());
            end = start;
        }
        trim(&mut mag);
        let neg = neg && !mag.is_empty();
        Some(BigInt { neg, mag })
    }
    pub fn to_string(&self) -> String {
        if self.mag.is_empty() { return "0".into(); }
        let mut s = String::new();
        if self.neg { s.push('-'); }
        s.push_str(&format!("{}", self.mag[self.mag.len() - 1]));
        for i in (0..self.mag.len() - 1).rev() { s.push_str(&format!("{:09}", self.mag[i])); }
        s
    }
    pub fn to_i128(&self) -> Option<i128> {
        let mut r: i128 = 0;
        for i in (0..self.mag.len()).rev() { r = r.checked_mul(BASE as i128)?.checked_add(self.mag[i] as i128)?; }
        Some(if self.neg { -r } else { r })
    }
    pub fn neg(&self) -> Self { BigInt { neg: !self.neg && !self.mag.is_empty(), mag: self.mag.clone() } }
    pub fn abs(&self) -> Self { BigInt { neg: false, mag: self.mag.clone() } }
    pub fn add(&self, o: &Self) -> Self {
        if self.neg == o.neg { return BigInt { neg: self.neg, mag: add_mag(&self.mag, &o.mag) }; }
        match cmp_mag(&self.mag, &o.mag) {
            Ordering::Equal => Self::zero(),
            Ordering::Greater => BigInt { neg: self.neg, mag: sub_mag(&self.mag, &o.mag) },
            Ordering::Less => BigInt { neg: o.neg, mag: sub_mag(&o.mag, &self.mag) },
        }
    }
    pub fn sub(&self, o: &Self) -> Self { self.add(&o.neg()) }
    pub fn mul(&self, o: &Self) -> Self {
        let mag = mul_mag(&self.mag, &o.mag);
        BigInt { neg: (self.neg != o.neg) && !mag.is_empty(), mag }
    }
    /// truncating division (toward zero) and remainder with the sign of the dividend
    pub fn divrem(&self, o: &Self) -> (Self, Self) {
        assert!(!o.is_zero());
        let (q, r) = divrem_mag(&self.mag, &o.mag);
        (BigInt { neg: (self.neg != o.neg) && !q.is_empty(), mag: q }, BigInt { neg: self.neg && !r.is_empty(), mag: r })
    }
    pub fn cmp(&self, o: &Self) -> Ordering {
        match (self.neg, o.neg) {
            (false, true) => Ordering::Greater,
            (true, false) => Ordering::Less,
            (false, false) => cmp_mag(&self.mag, &o.mag),
            (true, true) => cmp_mag(&o.mag, &self.mag),
        }
    }
    pub fn pow10(n: u32) -> Self {
        let mut mag = vec![0u32; (n / 9) as usize];
        mag.push(10u32.pow(n % 9));
        BigInt { neg: false, mag }
    }
    pub fn pow2(n: u32) -> Self {
        let mut r = BigInt::from_u64(1);
        let two30 = BigInt::from_u64(1 << 30);
        let mut k = n;
        while k >= 30 { r = r.mul(&two30); k -= 30; }
        r.mul(&BigInt::from_u64(1u64 << k))
    }
    pub fn is_even(&self) -> bool { self.mag.first().map(|x| x % 2 == 0).unwrap_or(true) }
}
