//! eval_i64 (C06, C10, C11): exact integer arithmetic in a wider type, Err on overflow,
//! zero divisor or bad shift count.  Parametric in the word size W (spec/IntSem.tla).
use super::{Flags, Sem, Stop, R};

pub struct I64Sem {
    pub w: u32,
    pub ph: i128,
    pub flags: Flags,
}

pub fn min_int(w: u32) -> i128 { -(1i128 << (w - 1)) }
pub fn max_int(w: u32) -> i128 { (1i128 << (w - 1)) - 1 }
/// largest exponent for which `^` is specified: 2^32-1 at W = 64 (scaled: 2^(W/2)-1)
pub fn max_exp(w: u32) -> i128 { (1i128 << (w / 2)) - 1 }

pub fn chk(w: u32, x: i128) -> R<i128> {
    if x >= min_int(w) && x <= max_int(w) { Ok(x) } else { Err(Stop::Err("integer overflow")) }
}

/// checked power by iterated checked multiplication (PowChk of the specification)
pub fn pow_chk(w: u32, a: i128, n: i128) -> R<i128> {
    if a == 0 { return Ok(if n == 0 { 1 } else { 0 }); }
    if a == 1 { return Ok(1); }
    if a == -1 { return Ok(if n % 2 == 0 { 1 } else { -1 }); }
    let mut r: i128 = 1;
    let mut k = 0;
    while k < n {
        r = chk(w, r * a)?;
        k += 1;
    }
    Ok(r)
}

pub fn fact_chk(w: u32, n: i128) -> R<i128> {
    let mut r: i128 = 1;
    let mut i = 2;
    while i <= n { r = chk(w, r * i)?; i += 1; }
    Ok(r)
}

pub fn gcd_u(a: u128, b: u128) -> u128 { let (mut a, mut b) = (a, b); while b != 0 { let r = a % b; a = b; b = r; } a }

impl I64Sem {
    pub fn new(w: u32, ph: i128) -> Self { I64Sem { w, ph, flags: Flags::default() } }
    fn nested_guard(&self) -> R<()> {
        if self.flags.abs_slack.get() > 0 { Err(Stop::Unspec("RealFunctionNested")) } else { Ok(()) }
    }
    /// real-valued functions: an integer within 1 of the real result when that is below 2^53
    fn real(&self, v: f64) -> R<i128> {
        if !v.is_finite() { return Err(Stop::Unspec("RealFunctionOutsideDomain")); }
        if v.abs() >= 9007199254740992.0 { return Err(Stop::Unspec("RealFunctionBeyond2p53")); }
        if self.w < 64 { return Err(Stop::Unspec("RealFunctionAtSmallW")); }
        self.flags.abs_slack.set(1);
        Ok(v.trunc() as i128)
    }
}

impl Sem for I64Sem {
    type V = i128;
    fn flags(&self) -> &Flags { &self.flags }
    fn lit(&self, text: &str, _imag: bool) -> R<i128> {
        if text.contains('.') { return Err(Stop::Err("point in integer literal")); }
        let t = text.trim_start_matches('0');
        if t.len() > 38 { return Err(Stop::Err("literal does not fit")); }
        let v: i128 = if t.is_empty() { 0 } else { t.parse::<i128>().map_err(|_| Stop::Err("malformed literal"))? };
        chk(self.w, v).map_err(|_| Stop::Err("literal does not fit"))
    }
    fn ans(&self) -> i128 { self.ph }
    fn konst(&self, _name: &str) -> R<i128> { Err(Stop::Err("no constants in eval_i64")) }
    fn zero(&self) -> i128 { 0 }
    fn un(&self, op: &str, a: i128) -> R<i128> {
        self.nested_guard()?;
        match op {
            "neg" => chk(self.w, -a),
            "fact" => if a < 0 { Err(Stop::Unspec("NegativeFactorialI64")) } else { fact_chk(self.w, a) },
            _ => Err(Stop::Err("operator not offered")),
        }
    }
    fn bin(&self, op: &str, a: i128, b: i128) -> R<i128> {
        self.nested_guard()?;
        let w = self.w;
        match op {
            "add" => chk(w, a + b),
            "sub" => chk(w, a - b),
            "mul" => chk(w, a * b),
            "div" => if b == 0 { Err(Stop::Err("division by zero")) } else { if a % b != 0 { self.flags.inexact_div.set(true); } chk(w, a / b) },
            "mod" => if b == 0 { Err(Stop::Err("remainder by zero")) } else { Ok(a % b) },
            "pow" => if b < 0 || b > max_exp(w) { Err(Stop::Unspec("PowExponentOutOfRange")) } else { pow_chk(w, a, b) },
            "and" => Ok(a & b),
            "or" => Ok(a | b),
            "shl" => if b < 0 || b >= w as i128 { Err(Stop::Err("shift count")) }
                     else { let r = a << b; if r >= min_int(w) && r <= max_int(w) { Ok(r) } else { Err(Stop::Unspec("ShlOverflow")) } },
            "shr" => if b < 0 || b >= w as i128 { Err(Stop::Err("shift count")) } else { Ok(a >> b) },
            _ => Err(Stop::Err("operator not offered")),
        }
    }
    fn sup(&self, base: i128, digits: &str) -> R<i128> {
        let n = self.lit(digits, false)?;
        self.bin("pow", base, n)
    }
    fn call(&self, func: &str, args: Vec<i128>) -> R<i128> {
        self.nested_guard()?;
        let w = self.w;
        match func {
            "Abs" => chk(w, args[0].abs()),
            "Sign" => Ok(args[0].signum()),
            "Mod" => self.bin("mod", args[0], args[1]),
            "Pow" => self.bin("pow", args[0], args[1]),
            "Min" => Ok(*args.iter().min().unwrap()),
            "Max" => Ok(*args.iter().max().unwrap()),
            "Avg" => { let s: i128 = args.iter().sum(); Ok(s / args.len() as i128) }
            "Med" => {
                let mut v = args.clone(); v.sort();
                let n = v.len();
                if n % 2 == 1 { Ok(v[n / 2]) } else { Ok((v[n / 2 - 1] + v[n / 2]) / 2) }
            }
            "Gcd" => { let g = args.iter().fold(0u128, |g, x| gcd_u(g, x.unsigned_abs())); chk(w, g as i128) }
            "Lcm" => {
                if args.iter().any(|x| *x == 0) { return Ok(0); }
                let mut l: u128 = 1;
                for x in &args {
                    let ax = x.unsigned_abs();
                    let g = gcd_u(l, ax);
                    l = (l / g).checked_mul(ax).ok_or(Stop::Err("lcm overflow"))?;
                    if l > max_int(w) as u128 { return Err(Stop::Err("lcm overflow")); }
                }
                Ok(l as i128)
            }
            "Sqrt" => self.real((args[0] as f64).sqrt()),
            "Ln" => self.real((args[0] as f64).ln()),
            "Lb" => self.real((args[0] as f64).log2()),
            "Exp" => self.real((args[0] as f64).exp()),
            "Exp2" => if args[0] < 0 { self.real((args[0] as f64).exp2()) }
                      else if args[0] < (w - 1) as i128 { Ok(1i128 << args[0]) } else { Err(Stop::Unspec("Exp2Overflow")) },
            "Log" => self.real((args[0] as f64).ln() / (args[1] as f64).ln()),
            "Root" => self.real((args[1] as f64).powf(1.0 / args[0] as f64)),
            _ => Err(Stop::Err("function not offered")),
        }
    }
}
